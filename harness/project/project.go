// Package project is the projection barcode.Barcode -> JSON-able record.
// It does no decoding, no table lookup and no arithmetic beyond comparison.
package project

import (
	"crypto/sha256"
	"encoding/hex"
	"fmt"
	"image"
	"image/color"

	"github.com/boombuler/barcode"
)

// Ref is the colour reference a barcode's pixels are classified against: background, foreground, for scaled
// barcodes the fill colours of the chain of Scale calls that produced it, and then any further colour met
// while projecting (so that every distinct colour keeps a stable class number along a chain).
type Ref struct {
	List *[]color.Color
}

func NewRef(fg, bg color.Color) Ref { return Ref{List: &[]color.Color{bg, fg}} }

// Fillless returns the background colour (the default fill of Scale for barcodes that expose a colour scheme).
func (r Ref) Fillless() color.Color { return (*r.List)[0] }

// With returns a copy of the reference extended by one more fill colour.
func (r Ref) With(fill color.Color) Ref {
	l := append([]color.Color{}, (*r.List)...)
	l = append(l, fill)
	return Ref{List: &l}
}

func ColorString(c color.Color) string {
	if c == nil {
		return "nil"
	}
	return fmt.Sprintf("%T%v", c, c)
}

func ModelString(m color.Model) string {
	switch m {
	case color.GrayModel:
		return "gray"
	case color.Gray16Model:
		return "gray16"
	case color.RGBAModel:
		return "rgba"
	case color.RGBA64Model:
		return "rgba64"
	case color.NRGBAModel:
		return "nrgba"
	case color.NRGBA64Model:
		return "nrgba64"
	case color.CMYKModel:
		return "cmyk"
	case color.AlphaModel:
		return "alpha"
	case nil:
		return "nil"
	}
	return "other"
}

// Classify returns the index of the first reference colour equal to c (0 = background, 1 = foreground,
// 2.. = fill colours / further colours in order of appearance); unknown colours are appended (99 after 60 of them).
func Classify(c color.Color, r Ref) int {
	for i, x := range *r.List {
		if c == x {
			return i
		}
	}
	if len(*r.List) >= 60 {
		return 99
	}
	*r.List = append(*r.List, c)
	return len(*r.List) - 1
}

func bytesToInts(b []byte) []int {
	r := make([]int, len(b))
	for i, v := range b {
		r[i] = int(v)
	}
	return r
}

// Project returns the full observable state of bc. mode: "full" (pixels), "digest" (sha256 of pixels), "outcome" (no pixels).
func Project(bc barcode.Barcode, r Ref, mode string) (res map[string]interface{}) {
	b := bc.Bounds()
	res = map[string]interface{}{
		"kind": "ok",
		"minx": b.Min.X, "miny": b.Min.Y, "w": b.Dx(), "hh": b.Dy(),
		"content": bytesToInts([]byte(bc.Content())),
		"mkind":   bc.Metadata().CodeKind,
		"mdim":    int(bc.Metadata().Dimensions),
		"model":   ModelString(bc.ColorModel()),
	}
	if cs, ok := bc.(barcode.BarcodeIntCS); ok {
		res["hascs"] = true
		res["cs"] = cs.CheckSum()
	} else {
		res["hascs"] = false
		res["cs"] = -1
	}
	if v, ok := bc.(barcode.BarcodeColor); ok {
		s := v.ColorScheme()
		res["hasscheme"] = true
		res["sfg"] = ColorString(s.Foreground)
		res["sbg"] = ColorString(s.Background)
		res["smodel"] = ModelString(s.Model)
	} else {
		res["hasscheme"] = false
		res["sfg"] = ""
		res["sbg"] = ""
		res["smodel"] = ""
	}
	nref := len(*r.List)
	defer func() {
		rl := make([]string, len(*r.List))
		for i, c := range *r.List {
			rl[i] = ColorString(c)
		}
		res["reflist"] = rl
		res["nref"] = nref // colours known before this projection (background, foreground, fills)
	}()
	if mode == "outcome" {
		return res
	}
	h := sha256.New()
	var rows [][]int
	if mode == "full" {
		rows = make([][]int, 0, b.Dy())
	}
	rowbuf := make([]byte, b.Dx())
	for y := b.Min.Y; y < b.Max.Y; y++ {
		var row []int
		if mode == "full" {
			row = make([]int, b.Dx())
		}
		for x := b.Min.X; x < b.Max.X; x++ {
			at := bc.At(x, y)
			c := Classify(at, r)
			// an image may offer a second, faster view of its pixels (image.RGBA64Image, used by image/draw): both views must show the
			// same picture - a pixel on which they disagree is reported as a colour of its own (class 98), which no reader accepts
			if r64, ok := bc.(image.RGBA64Image); ok && at != nil {
				ar, ag, ab, aa := at.RGBA()
				v := r64.RGBA64At(x, y)
				if uint32(v.R) != ar || uint32(v.G) != ag || uint32(v.B) != ab || uint32(v.A) != aa {
					c = 98
				}
			}
			rowbuf[x-b.Min.X] = byte(c)
			if mode == "full" {
				row[x-b.Min.X] = c
			}
		}
		h.Write(rowbuf)
		h.Write([]byte{255})
		if mode == "full" {
			rows = append(rows, row)
		}
	}
	res["pxdigest"] = hex.EncodeToString(h.Sum(nil))
	if mode == "full" {
		res["px"] = rows
	}
	return res
}
