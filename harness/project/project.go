// Package project is the projection barcode.Barcode -> JSON-able record.
// It does no decoding, no table lookup and no arithmetic beyond comparison.
package project

import (
	"crypto/sha256"
	"encoding/hex"
	"fmt"
	"image/color"

	"github.com/boombuler/barcode"
)

// Ref is the colour reference a barcode's pixels are classified against.
type Ref struct {
	Fg, Bg color.Color
	Fill   color.Color // nil when not a scaled barcode
}

func ColorString(c color.Color) string {
	if c == nil {
		return "nil"
	}
	return fmt.Sprintf("%T%v", c, c)
}

func ModelString(m color.Model) string {
	switch m {
	case color.GrayModel:
		return "gray"
	case color.Gray16Model:
		return "gray16"
	case color.RGBAModel:
		return "rgba"
	case color.RGBA64Model:
		return "rgba64"
	case color.NRGBAModel:
		return "nrgba"
	case color.NRGBA64Model:
		return "nrgba64"
	case color.CMYKModel:
		return "cmyk"
	case color.AlphaModel:
		return "alpha"
	case nil:
		return "nil"
	}
	return "other"
}

// Classify: 1 = foreground, 0 = background, 3 = fill (only if distinct from both), 2 = anything else.
func Classify(c color.Color, r Ref) int {
	if c == r.Fg {
		return 1
	}
	if c == r.Bg {
		return 0
	}
	if r.Fill != nil && c == r.Fill {
		return 3
	}
	return 2
}

// FillCode is the class a fill pixel gets under Classify.
func FillCode(r Ref) int {
	if r.Fill == nil {
		return -1
	}
	return Classify(r.Fill, r)
}

func bytesToInts(b []byte) []int {
	r := make([]int, len(b))
	for i, v := range b {
		r[i] = int(v)
	}
	return r
}

// Project returns the full observable state of bc. mode: "full" (pixels), "digest" (sha256 of pixels), "outcome" (no pixels).
func Project(bc barcode.Barcode, r Ref, mode string) map[string]interface{} {
	b := bc.Bounds()
	res := map[string]interface{}{
		"kind": "ok",
		"minx": b.Min.X, "miny": b.Min.Y, "w": b.Dx(), "hh": b.Dy(),
		"content": bytesToInts([]byte(bc.Content())),
		"mkind":   bc.Metadata().CodeKind,
		"mdim":    int(bc.Metadata().Dimensions),
		"model":   ModelString(bc.ColorModel()),
	}
	if cs, ok := bc.(barcode.BarcodeIntCS); ok {
		res["hascs"] = true
		res["cs"] = cs.CheckSum()
	} else {
		res["hascs"] = false
		res["cs"] = -1
	}
	if v, ok := bc.(barcode.BarcodeColor); ok {
		s := v.ColorScheme()
		res["hasscheme"] = true
		res["sfg"] = ColorString(s.Foreground)
		res["sbg"] = ColorString(s.Background)
		res["smodel"] = ModelString(s.Model)
	} else {
		res["hasscheme"] = false
		res["sfg"] = ""
		res["sbg"] = ""
		res["smodel"] = ""
	}
	res["fillcode"] = FillCode(r)
	res["reffg"] = ColorString(r.Fg)
	res["refbg"] = ColorString(r.Bg)
	res["reffill"] = ColorString(r.Fill)
	if mode == "outcome" {
		return res
	}
	h := sha256.New()
	var rows [][]int
	if mode == "full" {
		rows = make([][]int, 0, b.Dy())
	}
	rowbuf := make([]byte, b.Dx())
	for y := b.Min.Y; y < b.Max.Y; y++ {
		var row []int
		if mode == "full" {
			row = make([]int, b.Dx())
		}
		for x := b.Min.X; x < b.Max.X; x++ {
			c := Classify(bc.At(x, y), r)
			rowbuf[x-b.Min.X] = byte(c)
			if mode == "full" {
				row[x-b.Min.X] = c
			}
		}
		h.Write(rowbuf)
		h.Write([]byte{255})
		if mode == "full" {
			rows = append(rows, row)
		}
	}
	res["pxdigest"] = hex.EncodeToString(h.Sum(nil))
	if mode == "full" {
		res["px"] = rows
	}
	return res
}
