// drive executes a list of calls (ndjson jobs) against the real library and writes one ndjson
// event per call. It contains no oracle: it only calls the public API and projects what came back.
package main

import (
	"bufio"
	"encoding/json"
	"flag"
	"fmt"
	"image"
	"image/color"
	"os"
	"reflect"
	"runtime"
	"strings"
	"time"

	"verifharness/project"

	"github.com/boombuler/barcode"
	"github.com/boombuler/barcode/aztec"
	"github.com/boombuler/barcode/codabar"
	"github.com/boombuler/barcode/code128"
	"github.com/boombuler/barcode/code39"
	"github.com/boombuler/barcode/code93"
	"github.com/boombuler/barcode/datamatrix"
	"github.com/boombuler/barcode/ean"
	"github.com/boombuler/barcode/pdf417"
	"github.com/boombuler/barcode/qr"
	"github.com/boombuler/barcode/twooffive"
	"github.com/boombuler/barcode/utils"
)

type ColorSpec struct {
	T string `json:"t"`
	V []int  `json:"v"`
}

type SchemeSpec struct {
	Name  string     `json:"name"`
	Model string     `json:"model"`
	Fg    *ColorSpec `json:"fg"`
	Bg    *ColorSpec `json:"bg"`
	// Partial: "fg" | "bg" | "model" | "zero" - leave only that field (or none) set; used by op "poke"
	Partial string `json:"partial"`
}

type Job struct {
	Op      string      `json:"op"`
	Sym     string      `json:"sym,omitempty"`
	Api     string      `json:"api,omitempty"`
	Content []int       `json:"content"`
	P       []int       `json:"p"`
	Scheme  *SchemeSpec `json:"scheme,omitempty"`
	Proj    string      `json:"proj,omitempty"`
	Hist    int         `json:"hist"`
	Tag     string      `json:"tag,omitempty"`
	// scale / reread / mutate
	Src  int        `json:"src"`
	Hid  int        `json:"hid"`
	W    int        `json:"w"`
	H    int        `json:"hh"`
	Fill *ColorSpec `json:"fill,omitempty"`
	Buf  int        `json:"buf"`
	Idx  int        `json:"idx"`
	Val  int        `json:"val"`
	// synth
	Dim       int     `json:"dim"`
	Px        [][]int `json:"px,omitempty"`
	HasScheme bool    `json:"hasscheme"`
	HasCS     bool    `json:"hascs"`
	CS        int     `json:"cs"`
	MinX      int     `json:"minx"`
	MinY      int     `json:"miny"`
	// objects
	Obj   int    `json:"obj"`
	Call  string `json:"call,omitempty"`
	A     []int  `json:"a"`
	B     []int  `json:"b"`
	Field []int  `json:"field,omitempty"`
	Full  bool   `json:"full"`
	N     int    `json:"n"`
}

func mkColor(c *ColorSpec) color.Color {
	if c == nil {
		return nil
	}
	v := c.V
	g := func(i int) int {
		if i < len(v) {
			return v[i]
		}
		return 0
	}
	switch c.T {
	case "gray":
		return color.Gray{Y: uint8(g(0))}
	case "gray16":
		return color.Gray16{Y: uint16(g(0))}
	case "rgba":
		return color.RGBA{uint8(g(0)), uint8(g(1)), uint8(g(2)), uint8(g(3))}
	case "nrgba":
		return color.NRGBA{uint8(g(0)), uint8(g(1)), uint8(g(2)), uint8(g(3))}
	case "rgba64":
		return color.RGBA64{uint16(g(0)), uint16(g(1)), uint16(g(2)), uint16(g(3))}
	case "nrgba64":
		return color.NRGBA64{uint16(g(0)), uint16(g(1)), uint16(g(2)), uint16(g(3))}
	case "cmyk":
		return color.CMYK{uint8(g(0)), uint8(g(1)), uint8(g(2)), uint8(g(3))}
	case "alpha":
		return color.Alpha{A: uint8(g(0))}
	}
	return color.Gray{Y: uint8(g(0))}
}

func mkModel(m string) color.Model {
	switch m {
	case "gray":
		return color.GrayModel
	case "gray16":
		return color.Gray16Model
	case "rgba":
		return color.RGBAModel
	case "rgba64":
		return color.RGBA64Model
	case "nrgba":
		return color.NRGBAModel
	case "nrgba64":
		return color.NRGBA64Model
	case "cmyk":
		return color.CMYKModel
	case "alpha":
		return color.AlphaModel
	}
	return color.GrayModel
}

func mkScheme(s *SchemeSpec) barcode.ColorScheme {
	switch s.Name {
	case "s8":
		return barcode.ColorScheme8
	case "s16":
		return barcode.ColorScheme16
	case "s24":
		return barcode.ColorScheme24
	case "s32":
		return barcode.ColorScheme32
	}
	cs := barcode.ColorScheme{Model: mkModel(s.Model), Foreground: mkColor(s.Fg), Background: mkColor(s.Bg)}
	switch s.Partial { // incomplete schemes (op "poke" only): a caller's mistake whose effect must stay with that call
	case "fg":
		cs.Model, cs.Background = nil, nil
	case "bg":
		cs.Model, cs.Foreground = nil, nil
	case "model":
		cs.Foreground, cs.Background = nil, nil
	case "zero":
		cs = barcode.ColorScheme{}
	}
	return cs
}

// synthetic source barcode (for Scale): arbitrary matrix, optional interfaces.
type synthBase struct {
	px     [][]int
	dim    int
	min    image.Point
	fg, bg color.Color
	cs     int
}

func (s *synthBase) ColorModel() color.Model { return color.RGBAModel }
func (s *synthBase) Bounds() image.Rectangle {
	return image.Rect(s.min.X, s.min.Y, s.min.X+len(s.px[0]), s.min.Y+len(s.px))
}
func (s *synthBase) At(x, y int) color.Color {
	if s.px[y-s.min.Y][x-s.min.X] == 1 {
		return s.fg
	}
	return s.bg
}
func (s *synthBase) Metadata() barcode.Metadata {
	return barcode.Metadata{CodeKind: "synthetic", Dimensions: byte(s.dim)}
}
func (s *synthBase) Content() string { return "synthetic-content" }

type synthScheme struct{ synthBase }

func (s *synthScheme) ColorScheme() barcode.ColorScheme {
	return barcode.ColorScheme{Model: color.RGBAModel, Foreground: s.fg, Background: s.bg}
}

type synthCS struct{ synthBase }

func (s *synthCS) CheckSum() int { return s.cs }

type synthBoth struct{ synthScheme }

func (s *synthBoth) CheckSum() int { return s.cs }

type handle struct {
	bc  barcode.Barcode
	ref project.Ref
}

var (
	handles  = map[int]handle{}
	buffers  = map[int][]byte{}
	guards   = map[int][]byte{} // the whole allocation behind an aztec payload (payload + guard bytes)
	bitlists = map[int]*utils.BitList{}
	fields   = map[string]*utils.GaloisField{}
	rsencs   = map[int]*utils.ReedSolomonEncoder{}
	deadline = 30 * time.Second
)

func toBytes(v []int) []byte {
	b := make([]byte, len(v))
	for i, x := range v {
		b[i] = byte(x)
	}
	return b
}
func toInts(b []byte) []int {
	r := make([]int, len(b))
	for i, x := range b {
		r[i] = int(x)
	}
	return r
}
func p(j *Job, i int) int {
	if i < len(j.P) {
		return j.P[i]
	}
	return 0
}

func doEncode(j *Job, evIdx int) (barcode.Barcode, error, barcode.ColorScheme) {
	s := string(toBytes(j.Content))
	sch := barcode.ColorScheme16
	wc := strings.HasSuffix(j.Api, "WithColor")
	if wc {
		sch = mkScheme(j.Scheme)
	}
	var bc barcode.Barcode
	var err error
	// typed results must be converted carefully: a nil *T in an interface is not nil
	fix := func(b barcode.BarcodeIntCS, e error) {
		if b != nil {
			bc = b
		}
		err = e
	}
	switch j.Sym {
	case "qr":
		if wc {
			bc, err = qr.EncodeWithColor(s, qr.ErrorCorrectionLevel(p(j, 0)), qr.Encoding(p(j, 1)), sch)
		} else {
			bc, err = qr.Encode(s, qr.ErrorCorrectionLevel(p(j, 0)), qr.Encoding(p(j, 1)))
		}
	case "dm":
		if wc {
			bc, err = datamatrix.EncodeWithColor(s, sch)
		} else {
			bc, err = datamatrix.Encode(s)
		}
	case "aztec":
		// the payload is handed over as a slice WITH spare capacity behind it (as a caller that packs records into one buffer does):
		// the 24 guard bytes behind the argument belong to the caller as well and must come back untouched
		whole := make([]byte, len(j.Content)+24)
		for i := range whole {
			whole[i] = 0xA5
		}
		copy(whole, toBytes(j.Content))
		buf := whole[:len(j.Content)]
		if j.Content == nil && p(j, 2) == 1 {
			buf = nil
		}
		buffers[evIdx] = buf
		guards[evIdx] = whole
		if wc {
			bc, err = aztec.EncodeWithColor(buf, p(j, 0), p(j, 1), sch)
		} else {
			bc, err = aztec.Encode(buf, p(j, 0), p(j, 1))
		}
	case "pdf":
		if wc {
			bc, err = pdf417.EncodeWithColor(s, byte(p(j, 0)), sch)
		} else {
			bc, err = pdf417.Encode(s, byte(p(j, 0)))
		}
	case "c128":
		switch j.Api {
		case "Encode":
			fix(code128.Encode(s))
		case "EncodeWithColor":
			fix(code128.EncodeWithColor(s, sch))
		case "EncodeWithoutChecksum":
			bc, err = code128.EncodeWithoutChecksum(s)
		case "EncodeWithoutChecksumWithColor":
			bc, err = code128.EncodeWithoutChecksumWithColor(s, sch)
		default:
			err = fmt.Errorf("HARNESS: unknown api")
		}
	case "c39":
		if wc {
			fix(code39.EncodeWithColor(s, p(j, 0) == 1, p(j, 1) == 1, sch))
		} else {
			fix(code39.Encode(s, p(j, 0) == 1, p(j, 1) == 1))
		}
	case "c93":
		if wc {
			bc, err = code93.EncodeWithColor(s, p(j, 0) == 1, p(j, 1) == 1, sch)
		} else {
			bc, err = code93.Encode(s, p(j, 0) == 1, p(j, 1) == 1)
		}
	case "codabar":
		if wc {
			bc, err = codabar.EncodeWithColor(s, sch)
		} else {
			bc, err = codabar.Encode(s)
		}
	case "ean":
		if wc {
			fix(ean.EncodeWithColor(s, sch))
		} else {
			fix(ean.Encode(s))
		}
	case "25":
		if wc {
			bc, err = twooffive.EncodeWithColor(s, p(j, 0) == 1, sch)
		} else {
			bc, err = twooffive.Encode(s, p(j, 0) == 1)
		}
	default:
		err = fmt.Errorf("HARNESS: unknown symbology")
	}
	return bc, err, sch
}

// isNilBarcode reports a nil interface or an interface holding a nil pointer.
func isNilBarcode(bc barcode.Barcode) bool {
	if bc == nil {
		return true
	}
	v := reflect.ValueOf(bc)
	return v.Kind() == reflect.Ptr && v.IsNil()
}

// guarded runs f with recover and a deadline.
func guarded(f func() map[string]interface{}) map[string]interface{} {
	ch := make(chan map[string]interface{}, 1)
	go func() {
		defer func() {
			if r := recover(); r != nil {
				msg := fmt.Sprint(r)
				if len(msg) > 200 {
					msg = msg[:200]
				}
				ch <- map[string]interface{}{"kind": "panic", "msg": msg}
			}
		}()
		ch <- f()
	}()
	select {
	case r := <-ch:
		return r
	case <-time.After(deadline):
		return map[string]interface{}{"kind": "timeout"}
	}
}

func outcome(bc barcode.Barcode, err error, ref project.Ref, proj string, hid int) map[string]interface{} {
	nilbc := isNilBarcode(bc)
	switch {
	case err != nil && nilbc:
		msg := err.Error()
		if len(msg) > 200 {
			msg = msg[:200]
		}
		return map[string]interface{}{"kind": "error", "msg": msg}
	case err != nil && !nilbc:
		return map[string]interface{}{"kind": "both", "msg": err.Error()}
	case err == nil && nilbc:
		return map[string]interface{}{"kind": "neither"}
	}
	res := project.Project(bc, ref, proj)
	if hid != 0 {
		handles[hid] = handle{bc, ref}
		res["h"] = hid
	} else {
		res["h"] = 0
	}
	return res
}

func intsOrEmpty(v []int) []int {
	if v == nil {
		return []int{}
	}
	return v
}

func blState(bl *utils.BitList, full bool) map[string]interface{} {
	r := map[string]interface{}{"len": bl.Len()}
	if full {
		bits := make([]int, bl.Len())
		for i := range bits {
			if bl.GetBit(i) {
				bits[i] = 1
			}
		}
		r["bits"] = bits
	}
	return r
}

func getField(f []int) *utils.GaloisField {
	k := fmt.Sprint(f)
	if g, ok := fields[k]; ok {
		return g
	}
	g := utils.NewGaloisField(f[0], f[1], f[2])
	fields[k] = g
	return g
}

func safeInt(f func() int) (v int) {
	defer func() {
		if r := recover(); r != nil {
			v = -1
		}
	}()
	return f()
}

func libGoroutines() (live int, blocked []string) {
	buf := make([]byte, 1<<20)
	n := runtime.Stack(buf, true)
	for _, g := range strings.Split(string(buf[:n]), "\n\n") {
		if strings.Contains(g, "github.com/boombuler/barcode") && !strings.Contains(g, "main.main") && !strings.Contains(g, "main.guarded") {
			live++
			first := strings.SplitN(g, "\n", 2)[0]
			fn := ""
			for _, ln := range strings.Split(g, "\n") {
				if strings.Contains(ln, "github.com/boombuler/barcode") {
					fn = strings.TrimSpace(ln)
					break
				}
			}
			blocked = append(blocked, first+" @ "+fn)
		}
	}
	return
}

func run(j *Job, evIdx int) map[string]interface{} {
	proj := j.Proj
	if proj == "" {
		proj = "full"
	}
	switch j.Op {
	case "encode":
		return guarded(func() map[string]interface{} {
			var before []int
			if j.Sym == "aztec" {
				before = append([]int{}, j.Content...)
			}
			bc, err, sch := doEncode(j, evIdx)
			res := outcome(bc, err, project.NewRef(sch.Foreground, sch.Background), proj, j.Hid)
			if j.Sym == "aztec" {
				// did the call modify the caller's buffer?
				after := toInts(buffers[evIdx])
				same := len(after) == len(before)
				for i := 0; same && i < len(after); i++ {
					same = after[i] == before[i]
				}
				if g, ok := guards[evIdx]; ok {
					for i := len(before); same && i < len(g); i++ {
						same = g[i] == 0xA5
					}
				}
				res["inputsame"] = same
			}
			return res
		})
	case "poke":
		// a call outside every property's domain (an incomplete colour scheme): made, its result dropped unobserved. What is judged
		// are the calls AFTER it (history-freedom): whatever it does must not reach them.
		guarded(func() map[string]interface{} {
			defer func() { recover() }()
			doEncode(j, evIdx)
			return nil
		})
		return map[string]interface{}{"kind": "done"}
	case "scale":
		return guarded(func() map[string]interface{} {
			src, ok := handles[j.Src]
			if !ok {
				return map[string]interface{}{"kind": "nosource", "msg": "source handle was not created"}
			}
			var bc barcode.Barcode
			var err error
			var ref project.Ref
			var fill color.Color
			if j.Fill == nil {
				bc, err = barcode.Scale(src.bc, j.W, j.H)
				// Pixels are classified against a candidate default fill; whether that is the right default is decided
				// by the spec (from the source's logged colour scheme), and any other colour shows up as class 99.
				if v, ok := src.bc.(barcode.BarcodeColor); ok {
					fill = v.ColorScheme().Background
				} else {
					fill = color.White
				}
			} else {
				fill = mkColor(j.Fill)
				bc, err = barcode.ScaleWithFill(src.bc, j.W, j.H, fill)
			}
			ref = src.ref.With(fill)
			res := outcome(bc, err, ref, proj, j.Hid)
			res["fillstr"] = project.ColorString(fill)
			return res
		})
	case "reread":
		return guarded(func() map[string]interface{} {
			if _, ok := handles[j.Src]; !ok {
				return map[string]interface{}{"kind": "nosource", "msg": "source handle was not created"}
			}
			res := project.Project(handles[j.Src].bc, handles[j.Src].ref, proj)
			res["h"] = j.Src
			return res
		})
	case "mutate":
		b, ok := buffers[j.Buf]
		if !ok || j.Idx >= len(b) {
			return map[string]interface{}{"kind": "harness", "msg": "bad buffer"}
		}
		b[j.Idx] = byte(j.Val)
		return map[string]interface{}{"kind": "done"}
	case "synth":
		base := synthBase{px: j.Px, dim: j.Dim, min: image.Pt(j.MinX, j.MinY), fg: color.RGBA{10, 20, 30, 255}, bg: color.RGBA{240, 230, 220, 255}, cs: j.CS}
		var bc barcode.Barcode
		switch {
		case j.HasScheme && j.HasCS:
			bc = &synthBoth{synthScheme{base}}
		case j.HasScheme:
			bc = &synthScheme{base}
		case j.HasCS:
			bc = &synthCS{base}
		default:
			bc = &base
		}
		return outcome(bc, nil, project.NewRef(base.fg, base.bg), proj, j.Hid)
	case "addchecksum":
		return guarded(func() map[string]interface{} {
			s, err := twooffive.AddCheckSum(string(toBytes(j.Content)))
			if err != nil {
				return map[string]interface{}{"kind": "error", "msg": err.Error(), "out": []int{}}
			}
			return map[string]interface{}{"kind": "ok", "out": toInts([]byte(s))}
		})
	case "eansweep":
		// compact acceptance table of EAN-8: for every 7-digit prefix in [a0, a0+a1) the digit the encoder appends
		// (-1 if it refuses the prefix) and the 10-bit mask of final digits it accepts for the 8-digit form
		return guarded(func() map[string]interface{} {
			start, cnt := j.A[0], j.A[1]
			app := make([]int, cnt)
			mask := make([]int, cnt)
			for k := 0; k < cnt; k++ {
				pre := fmt.Sprintf("%07d", start+k)
				app[k] = -1
				if bc, err := ean.Encode(pre); err == nil && bc != nil {
					if c := bc.Content(); len(c) == 8 && c[:7] == pre {
						app[k] = int(c[7] - '0')
					} else {
						app[k] = -2
					}
				}
				for d := 0; d < 10; d++ {
					if bc, err := ean.Encode(pre + string(rune('0'+d))); err == nil && bc != nil {
						mask[k] |= 1 << uint(d)
					}
				}
			}
			return map[string]interface{}{"kind": "ok", "app": app, "mask": mask}
		})
	case "bl":
		return guarded(func() map[string]interface{} { return runBL(j) })
	case "gf":
		return guarded(func() map[string]interface{} { return runGF(j) })
	case "rs":
		return guarded(func() map[string]interface{} {
			enc, ok := rsencs[j.Obj]
			if !ok {
				enc = utils.NewReedSolomonEncoder(getField(j.Field))
				rsencs[j.Obj] = enc
			}
			// the data is handed over as a slice with spare capacity behind it that holds other (non-zero) values, as a caller that
			// slices a larger buffer does; Encode must neither read its padding from there nor write there
			whole := make([]int, len(j.A)+j.N+8)
			for i := range whole {
				whole[i] = 1 + (i*7)%13
			}
			copy(whole, j.A)
			out := enc.Encode(whole[:len(j.A)], j.N)
			res := map[string]interface{}{"kind": "ok", "out": intsOrEmpty(out)}
			for i := len(j.A); i < len(whole); i++ {
				if whole[i] != 1+(i*7)%13 {
					res["kind"] = "wrote-behind-input"
				}
			}
			return res
		})
	case "quiesce":
		var live int
		var bl []string
		for t := 0; t < 50; t++ {
			live, bl = libGoroutines()
			if live == 0 {
				break
			}
			time.Sleep(100 * time.Millisecond)
		}
		if bl == nil {
			bl = []string{}
		}
		return map[string]interface{}{"kind": "ok", "live": live, "stacks": bl}
	}
	return map[string]interface{}{"kind": "harness", "msg": "unknown op " + j.Op}
}

func runBL(j *Job) map[string]interface{} {
	a := func(i int) int {
		if i < len(j.A) {
			return j.A[i]
		}
		return 0
	}
	if j.Call == "New" {
		bitlists[j.Obj] = utils.NewBitList(a(0))
		r := blState(bitlists[j.Obj], j.Full)
		r["kind"] = "ok"
		r["ret"] = []int{}
		return r
	}
	bl, ok := bitlists[j.Obj]
	if !ok {
		return map[string]interface{}{"kind": "harness", "msg": "no such bitlist"}
	}
	ret := []int{}
	switch j.Call {
	case "AddBit":
		bs := make([]bool, len(j.A))
		for i, v := range j.A {
			bs[i] = v == 1
		}
		bl.AddBit(bs...)
	case "AddBits":
		bl.AddBits(a(0), byte(a(1)))
	case "AddByte":
		bl.AddByte(byte(a(0)))
	case "AddByteN": // a(1) consecutive AddByte(a(0)) calls, logged as one event
		for k := 0; k < a(1); k++ {
			bl.AddByte(byte(a(0)))
		}
	case "SetBit":
		bl.SetBit(a(0), a(1) == 1)
	case "GetBit":
		if bl.GetBit(a(0)) {
			ret = []int{1}
		} else {
			ret = []int{0}
		}
	case "Len":
		ret = []int{bl.Len()}
	case "GetBytes":
		ret = toInts(bl.GetBytes())
	case "IterateBytes":
		// optional arguments: a slow consumer - pause a[0] ms after the first byte, then a[1] ms after each of the next a[2] bytes
		// (what the channel delivers must not depend on how fast it is drained)
		k := 0
		for b := range bl.IterateBytes() {
			ret = append(ret, int(b))
			if k == 0 && len(j.A) >= 1 && j.A[0] > 0 {
				time.Sleep(time.Duration(j.A[0]) * time.Millisecond)
			} else if len(j.A) >= 3 && k <= j.A[2] && j.A[1] > 0 {
				time.Sleep(time.Duration(j.A[1]) * time.Millisecond)
			}
			k++
		}
	default:
		return map[string]interface{}{"kind": "harness", "msg": "unknown bl call"}
	}
	r := blState(bl, j.Full)
	r["kind"] = "ok"
	r["ret"] = ret
	return r
}

func runGF(j *Job) map[string]interface{} {
	gf := getField(j.Field)
	poly := func(c []int) *utils.GFPoly { return utils.NewGFPoly(gf, append([]int{}, c...)) }
	switch j.Call {
	case "tables":
		return map[string]interface{}{"kind": "ok", "alog": gf.ALogTbl, "log": gf.LogTbl, "size": gf.Size, "base": gf.Base}
	case "mulrow": // Multiply(a, b) for b in B (or all b)
		out := make([]int, len(j.B))
		for i, b := range j.B {
			a, b := j.A[0], b
			out[i] = safeInt(func() int { return gf.Multiply(a, b) })
		}
		return map[string]interface{}{"kind": "ok", "out": out}
	case "divrow":
		out := make([]int, len(j.B))
		for i, b := range j.B {
			a, b := j.A[0], b
			out[i] = safeInt(func() int { return gf.Divide(a, b) })
		}
		return map[string]interface{}{"kind": "ok", "out": out}
	case "invrow":
		out := make([]int, len(j.B))
		for i, b := range j.B {
			b := b
			out[i] = safeInt(func() int { return gf.Invers(b) })
		}
		return map[string]interface{}{"kind": "ok", "out": out}
	case "addrow":
		out := make([]int, len(j.B))
		for i, b := range j.B {
			out[i] = gf.AddOrSub(j.A[0], b)
		}
		return map[string]interface{}{"kind": "ok", "out": out}
	case "padd":
		return map[string]interface{}{"kind": "ok", "out": intsOrEmpty(poly(j.A).AddOrSubstract(poly(j.B)).Coefficients)}
	case "pmul":
		return map[string]interface{}{"kind": "ok", "out": intsOrEmpty(poly(j.A).Multiply(poly(j.B)).Coefficients)}
	case "pmono":
		return map[string]interface{}{"kind": "ok", "out": intsOrEmpty(poly(j.A).MultByMonominal(j.B[0], j.B[1]).Coefficients)}
	case "pdiv":
		q, r := poly(j.A).Divide(poly(j.B))
		return map[string]interface{}{"kind": "ok", "out": intsOrEmpty(q.Coefficients), "rem": intsOrEmpty(r.Coefficients)}
	}
	return map[string]interface{}{"kind": "harness", "msg": "unknown gf call"}
}

func main() {
	in := flag.String("in", "", "jobs ndjson (default stdin)")
	out := flag.String("out", "", "events ndjson (default stdout)")
	dl := flag.Int("deadline", 30, "per-call deadline in seconds")
	flush := flag.Bool("flush", false, "flush the output after every event (used to locate the call during which the process died)")
	flag.Parse()
	deadline = time.Duration(*dl) * time.Second
	var r *os.File = os.Stdin
	var w *os.File = os.Stdout
	var err error
	if *in != "" {
		if r, err = os.Open(*in); err != nil {
			fmt.Fprintln(os.Stderr, err)
			os.Exit(2)
		}
	}
	if *out != "" {
		if w, err = os.Create(*out); err != nil {
			fmt.Fprintln(os.Stderr, err)
			os.Exit(2)
		}
	}
	sc := bufio.NewScanner(r)
	sc.Buffer(make([]byte, 1<<20), 1<<28)
	bw := bufio.NewWriterSize(w, 1<<20)
	defer bw.Flush()
	i := 0
	for sc.Scan() {
		line := sc.Bytes()
		if len(line) == 0 {
			continue
		}
		var j Job
		if err := json.Unmarshal(line, &j); err != nil {
			fmt.Fprintln(os.Stderr, "bad job:", err)
			os.Exit(2)
		}
		i++
		res := run(&j, i)
		var ev map[string]interface{}
		json.Unmarshal(line, &ev) // echo the job's own fields (arguments) into the event
		ev["i"] = i
		ev["res"] = res
		if j.Op == "encode" || j.Op == "addchecksum" {
			rs := []int{}
			for _, r := range string(toBytes(j.Content)) {
				rs = append(rs, int(r))
			}
			ev["runes"] = rs // how Go iterates the content string (invalid UTF-8 -> U+FFFD); language semantics, not library behaviour
		}
		if _, ok := ev["content"]; !ok || ev["content"] == nil {
			ev["content"] = []int{}
		}
		if _, ok := ev["p"]; !ok || ev["p"] == nil {
			ev["p"] = []int{}
		}
		b, _ := json.Marshal(ev)
		bw.Write(b)
		bw.WriteByte('\n')
		if *flush {
			bw.Flush()
		}
	}
}
