//go:build verif

// stress runs encoders concurrently (cold start: the very first calls of the process race) with the verif hooks
// installed, records every call's observation digest, the hook events in their global order, and the goroutines
// still alive afterwards. In -mode schedule it imposes a given order of Reed-Solomon cache lock acquisitions on
// concurrent clients of one shared encoder through the blocking hook. It contains no oracle.
package main

import (
	"bufio"
	"crypto/sha256"
	"encoding/hex"
	"encoding/json"
	"flag"
	"fmt"
	"math/rand"
	"os"
	"runtime"
	"strconv"
	"strings"
	"sync"
	"sync/atomic"
	"time"

	"verifharness/project"

	"github.com/boombuler/barcode"
	"github.com/boombuler/barcode/aztec"
	"github.com/boombuler/barcode/codabar"
	"github.com/boombuler/barcode/code128"
	"github.com/boombuler/barcode/code39"
	"github.com/boombuler/barcode/code93"
	"github.com/boombuler/barcode/datamatrix"
	"github.com/boombuler/barcode/ean"
	"github.com/boombuler/barcode/pdf417"
	"github.com/boombuler/barcode/qr"
	"github.com/boombuler/barcode/twooffive"
	"github.com/boombuler/barcode/utils"
)

type Job struct {
	Sym     string `json:"sym"`
	Content []int  `json:"content"`
	P       []int  `json:"p"`
	Key     int    `json:"key"`
}

type Sched struct {
	Field   []int   `json:"field"`
	Clients [][]int `json:"clients"` // per client: the check-symbol counts it requests, in order
	Order   []int   `json:"order"`   // client index per lock acquisition
	Data    []int   `json:"data"`
}

func toBytes(v []int) []byte {
	b := make([]byte, len(v))
	for i, x := range v {
		b[i] = byte(x)
	}
	return b
}

func p(j *Job, i int) int {
	if i < len(j.P) {
		return j.P[i]
	}
	return 0
}

func gid() int {
	var buf [64]byte
	n := runtime.Stack(buf[:], false)
	f := strings.Fields(string(buf[:n]))
	if len(f) >= 2 {
		v, _ := strconv.Atoi(f[1])
		return v
	}
	return -1
}

func encode(j *Job) (bc barcode.Barcode, err error) {
	s := string(toBytes(j.Content))
	switch j.Sym {
	case "qr":
		return qr.Encode(s, qr.ErrorCorrectionLevel(p(j, 0)), qr.Encoding(p(j, 1)))
	case "dm":
		return datamatrix.Encode(s)
	case "aztec":
		return aztec.Encode(toBytes(j.Content), p(j, 0), p(j, 1))
	case "pdf":
		return pdf417.Encode(s, byte(p(j, 0)))
	case "c128":
		b, e := code128.Encode(s)
		if b == nil {
			return nil, e
		}
		return b, e
	case "c39":
		b, e := code39.Encode(s, p(j, 0) == 1, p(j, 1) == 1)
		if b == nil {
			return nil, e
		}
		return b, e
	case "c93":
		return code93.Encode(s, p(j, 0) == 1, p(j, 1) == 1)
	case "codabar":
		return codabar.Encode(s)
	case "ean":
		b, e := ean.Encode(s)
		if b == nil {
			return nil, e
		}
		return b, e
	case "25":
		return twooffive.Encode(s, p(j, 0) == 1)
	}
	return nil, fmt.Errorf("unknown symbology")
}

// observe = encode, then also scale the result (Scale is part of the concurrent API surface); digest of both.
func observe(j *Job) (d string) {
	defer func() {
		if r := recover(); r != nil {
			d = "panic:" + fmt.Sprint(r)
		}
	}()
	bc, err := encode(j)
	if err != nil || bc == nil {
		return "error"
	}
	h := sha256.New()
	ref := project.NewRef(barcode.ColorScheme16.Foreground, barcode.ColorScheme16.Background)
	r := project.Project(bc, ref, "digest")
	delete(r, "reflist")
	b, _ := json.Marshal(r)
	h.Write(b)
	w, hh := bc.Bounds().Dx()*2+3, bc.Bounds().Dy()*2+1
	if sc, err := barcode.Scale(bc, w, hh); err == nil {
		r2 := project.Project(sc, ref.With(ref.Fillless()), "digest")
		delete(r2, "reflist")
		b2, _ := json.Marshal(r2)
		h.Write(b2)
	} else {
		h.Write([]byte("scale-error"))
	}
	return hex.EncodeToString(h.Sum(nil))[:24]
}

type res struct {
	G, K, Key int
	D         string
}

type hookEv struct {
	Op  string `json:"op"`
	Ev  string `json:"ev"`
	Enc int    `json:"enc"`
	A   int    `json:"a"`
	B   int    `json:"b"`
	Seq int64  `json:"seq"`
	Gid int    `json:"gid"`
}

var (
	seq     int64
	hmu     sync.Mutex
	hevents []hookEv
	encIDs  = map[interface{}]int{}
	gate    func(ev string, g int) // optional scheduler gate (may block)
)

// progress counts completed calls and hook events: the watchdog tells "slow" (a loaded machine, the race detector) from "stuck".
var progress int64

func hook(ev string, who interface{}, a, b int) {
	atomic.AddInt64(&progress, 1)
	g := gid()
	if gate != nil && ev == "rs.wait" {
		gate(ev, g)
	}
	hmu.Lock()
	id := 0
	if strings.HasPrefix(ev, "rs.") {
		var ok bool
		if id, ok = encIDs[who]; !ok {
			id = len(encIDs) + 1
			encIDs[who] = id
		}
	}
	hevents = append(hevents, hookEv{"hook", ev, id, a, b, atomic.AddInt64(&seq, 1), g})
	hmu.Unlock()
	if gate != nil && ev == "rs.unlock" {
		gate(ev, g)
	}
}

func libGoroutines() (int, []string) {
	buf := make([]byte, 1<<22)
	n := runtime.Stack(buf, true)
	live := 0
	var where []string
	for _, g := range strings.Split(string(buf[:n]), "\n\n") {
		if strings.Contains(g, "github.com/boombuler/barcode") && !strings.Contains(g, "main.main") && !strings.Contains(g, "main.worker") && !strings.Contains(g, "main.client") {
			live++
			for _, ln := range strings.Split(g, "\n") {
				if strings.Contains(ln, "github.com/boombuler/barcode") {
					where = append(where, strings.SplitN(g, "\n", 2)[0]+" @ "+strings.TrimSpace(ln))
					break
				}
			}
		}
	}
	return live, where
}

func emit(w *bufio.Writer, v interface{}) {
	b, _ := json.Marshal(v)
	w.Write(b)
	w.WriteByte('\n')
}

func main() {
	mode := flag.String("mode", "stress", "stress | schedule")
	in := flag.String("in", "", "jobs ndjson (stress) or one JSON schedule (schedule)")
	out := flag.String("out", "", "events ndjson")
	ng := flag.Int("g", 4, "goroutines")
	rounds := flag.Int("rounds", 1, "passes over the job list per goroutine")
	stall := flag.Int("stall", 150, "seconds without any completed call or hook event after which the run counts as stuck")
	maxrun := flag.Int("maxrun", 2400, "seconds after which a run that still makes progress is cut off (reported as timeout, not as deadlock)")
	seed := flag.Int64("seed", 1, "seed for the per-goroutine order")
	flag.Parse()
	utils.VerifHook = hook
	f, err := os.Create(*out)
	if err != nil {
		fmt.Fprintln(os.Stderr, err)
		os.Exit(2)
	}
	w := bufio.NewWriterSize(f, 1<<20)
	defer func() { w.Flush(); f.Close() }()
	raw, err := os.ReadFile(*in)
	if err != nil {
		fmt.Fprintln(os.Stderr, err)
		os.Exit(2)
	}
	// watchdog: no call completed and no hook fired for *stall* seconds -> the run is stuck (deadlock / hang of the code under test);
	// a run that keeps making progress is only cut off after *maxrun* seconds and then reported as a timeout (no verdict), never as a deadlock
	stopWatch := make(chan struct{})
	defer close(stopWatch)
	go func() {
		last, lastChange, t0 := int64(-1), time.Now(), time.Now()
		for {
			select {
			case <-stopWatch:
				return
			case <-time.After(2 * time.Second):
			}
			if p := atomic.LoadInt64(&progress); p != last {
				last, lastChange = p, time.Now()
			}
			stuck := time.Since(lastChange) > time.Duration(*stall)*time.Second
			if stuck || time.Since(t0) > time.Duration(*maxrun)*time.Second {
				op := "timeout"
				if stuck {
					op = "deadlock"
				}
				emit(w, map[string]interface{}{"op": op, "hist": 0, "progress": last})
				w.Flush()
				os.Exit(3)
			}
		}
	}()
	if *mode == "schedule" {
		runSchedule(raw, w)
		return
	}
	var jobs []Job
	for _, ln := range strings.Split(string(raw), "\n") {
		if strings.TrimSpace(ln) == "" {
			continue
		}
		var j Job
		if err := json.Unmarshal([]byte(ln), &j); err != nil {
			fmt.Fprintln(os.Stderr, err)
			os.Exit(2)
		}
		jobs = append(jobs, j)
	}
	results := make([][]res, *ng)
	var wg sync.WaitGroup
	start := make(chan struct{})
	for g := 0; g < *ng; g++ {
		wg.Add(1)
		g := g
		go worker(g, jobs, *rounds, *seed, start, &wg, func(r []res) { results[g] = r })
	}
	close(start) // cold start: every goroutine's first call races on the empty caches
	wg.Wait()
	for g := range results {
		for _, r := range results[g] {
			emit(w, map[string]interface{}{"op": "cencode", "g": r.G, "k": r.K, "key": r.Key, "digest": r.D, "hist": 0})
		}
	}
	live, where := 0, []string{}
	for t := 0; t < 50; t++ {
		live, where = libGoroutines()
		if live == 0 {
			break
		}
		time.Sleep(100 * time.Millisecond)
	}
	if where == nil {
		where = []string{}
	}
	// (hook events are collected after the goroutines are gone: a deferred go.exit event is emitted by the dying goroutine itself)
	hmu.Lock()
	evs := append([]hookEv{}, hevents...)
	hmu.Unlock()
	for _, e := range evs {
		emit(w, map[string]interface{}{"op": "hook", "ev": e.Ev, "enc": e.Enc, "a": e.A, "b": e.B, "seq": e.Seq, "gid": e.Gid, "hist": 0})
	}
	emit(w, map[string]interface{}{"op": "quiesce", "live": live, "stacks": where, "hist": 0})
	// reference: every distinct job alone, sequentially, after the concurrent phase
	seen := map[int]bool{}
	for i := range jobs {
		if !seen[jobs[i].Key] {
			seen[jobs[i].Key] = true
			emit(w, map[string]interface{}{"op": "ref", "key": jobs[i].Key, "digest": observe(&jobs[i]), "hist": 0})
		}
	}
}

func worker(g int, jobs []Job, rounds int, seed int64, start chan struct{}, wg *sync.WaitGroup, done func(r []res)) {
	defer wg.Done()
	rng := rand.New(rand.NewSource(seed*1000 + int64(g)))
	var out []res
	<-start
	k := 0
	for r := 0; r < rounds; r++ {
		for _, i := range rng.Perm(len(jobs)) {
			out = append(out, res{g, k, jobs[i].Key, observe(&jobs[i])})
			atomic.AddInt64(&progress, 1)
			k++
		}
	}
	done(out)
}

func runSchedule(raw []byte, w *bufio.Writer) {
	var s Sched
	if err := json.Unmarshal(raw, &s); err != nil {
		fmt.Fprintln(os.Stderr, err)
		os.Exit(2)
	}
	enc := utils.NewReedSolomonEncoder(utils.NewGaloisField(s.Field[0], s.Field[1], s.Field[2]))
	var mu sync.Mutex
	cond := sync.NewCond(&mu)
	turn := 0
	clientOf := map[int]int{} // goroutine id -> client
	done := map[int]bool{}    // clients that have made all their calls
	// The imposed order is a sequence of client ids, one per lock acquisition of the behaviour. An implementation need not take the lock for
	// every call (e.g. a lock-free fast path for cached degrees): turns of clients that have finished are skipped, so the replay never waits
	// for an acquisition that will not come; whether the order could be imposed is reported by the "order" event.
	gate = func(ev string, g int) {
		mu.Lock()
		defer mu.Unlock()
		c, ok := clientOf[g]
		if !ok {
			return
		}
		if ev == "rs.wait" {
			for turn < len(s.Order) && s.Order[turn] != c {
				if done[s.Order[turn]] {
					turn++
					cond.Broadcast()
					continue
				}
				cond.Wait()
			}
		} else { // rs.unlock: this acquisition is over, next in the order may go
			turn++
			cond.Broadcast()
		}
	}
	type rsres struct {
		C, N int
		Out  []int
	}
	var rmu sync.Mutex
	var results []rsres
	var wg sync.WaitGroup
	for c := range s.Clients {
		wg.Add(1)
		go func(c int) {
			client(c, s.Clients[c], s.Data, enc, &mu, clientOf, &wg, func(n int, out []int) {
				rmu.Lock()
				results = append(results, rsres{c, n, out})
				rmu.Unlock()
			})
			mu.Lock()
			done[c] = true
			cond.Broadcast()
			mu.Unlock()
			wg.Done()
		}(c)
	}
	wg.Wait()
	for _, e := range hevents {
		emit(w, map[string]interface{}{"op": "hook", "ev": e.Ev, "enc": e.Enc, "a": e.A, "b": e.B, "seq": e.Seq, "gid": e.Gid, "client": clientOf[e.Gid], "hist": 0})
	}
	for _, r := range results {
		emit(w, map[string]interface{}{"op": "rs", "obj": 1, "field": s.Field, "a": s.Data, "n": r.N, "client": r.C, "hist": 0,
			"res": map[string]interface{}{"kind": "ok", "out": r.Out}, "content": []int{}, "p": []int{}})
	}
	emit(w, map[string]interface{}{"op": "order", "want": s.Order, "hist": 0})
}

func client(c int, ns []int, data []int, enc *utils.ReedSolomonEncoder, mu *sync.Mutex, clientOf map[int]int, wg *sync.WaitGroup, rec func(n int, out []int)) {
	mu.Lock()
	clientOf[gid()] = c
	mu.Unlock()
	for _, n := range ns {
		rec(n, enc.Encode(append([]int{}, data...), n))
	}
}
