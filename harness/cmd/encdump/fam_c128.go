//go:build verif && verifenc && enc_c128

package main

import "github.com/boombuler/barcode/code128"

func init() {
	encoders["c128"] = func(content []int) ([]int, bool) {
		r := make([]rune, len(content))
		for i, c := range content {
			r[i] = rune(c)
		}
		vals, ok := code128.VerifIndexList(string(r))
		if !ok {
			return nil, false
		}
		out := make([]int, len(vals))
		for i, v := range vals {
			out[i] = int(v)
		}
		return out, true
	}
}
