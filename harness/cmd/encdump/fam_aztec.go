//go:build verif && verifenc && enc_aztec

package main

import (
	"bufio"
	"encoding/json"
	"fmt"
	"os"
	"strconv"

	"github.com/boombuler/barcode/aztec"
)

func init() {
	encoders["aztec"] = func(content []int) ([]int, bool) {
		b := make([]byte, len(content))
		for i, c := range content {
			b[i] = byte(c)
		}
		bits := aztec.VerifHighLevel(b)
		out := make([]int, len(bits))
		for i, x := range bits {
			if x {
				out[i] = 1
			}
		}
		return out, true
	}
	wholeRun["azsel"] = azsel
}

// azsel: for every (payload, percentage) of the input the automatic size choice, and explicit requests for the sizes around it, made through
// the public API, together with the high-level bit stream the choice is based on (packed into bytes, most significant bit first).
func azsel(w *bufio.Writer, in string) {
	type size struct{ width, req int }
	var sizes []size
	for L := 1; L <= 4; L++ {
		sizes = append(sizes, size{11 + 4*L, -L})
	}
	for L := 1; L <= 32; L++ {
		b := 14 + 4*L
		sizes = append(sizes, size{b + 1 + 2*((b/2-1)/15), L})
	}
	f, err := os.Open(in)
	if err != nil {
		fmt.Fprintln(os.Stderr, err)
		os.Exit(2)
	}
	sc := bufio.NewScanner(f)
	sc.Buffer(make([]byte, 1<<20), 1<<26)
	for sc.Scan() {
		var j struct {
			Content []int `json:"content"`
			Pct     int   `json:"pct"`
		}
		if err := json.Unmarshal(sc.Bytes(), &j); err != nil {
			fmt.Fprintln(os.Stderr, err)
			os.Exit(2)
		}
		data := make([]byte, len(j.Content))
		for i, c := range j.Content {
			data[i] = byte(c)
		}
		bits := aztec.VerifHighLevel(data)
		packed := make([]int, (len(bits)+7)/8)
		for i, b := range bits {
			if b {
				packed[i/8] |= 0x80 >> uint(i%8)
			}
		}
		one := func(req int) (kind string, width int) {
			defer func() {
				if r := recover(); r != nil {
					kind, width = "panic", 0
				}
			}()
			bc, err := aztec.Encode(append([]byte(nil), data...), j.Pct, req)
			if err != nil || bc == nil {
				return "error", 0
			}
			return "ok", bc.Bounds().Dx()
		}
		emit := func(req int, kind string, width int) {
			w.WriteString(`{"sym":"azsel","content":`)
			writeInts(w, j.Content)
			w.WriteString(`,"p":[` + strconv.Itoa(j.Pct) + "," + strconv.Itoa(req) + `],"hln":` + strconv.Itoa(len(bits)) + `,"hlb":`)
			writeInts(w, packed)
			w.WriteString(`,"kind":"` + kind + `","w":` + strconv.Itoa(width) + "}\n")
		}
		kind, aw := one(0)
		emit(0, kind, aw)
		for _, s := range sizes {
			if kind != "ok" || (s.width >= aw-12 && s.width <= aw+4) {
				if kind == "ok" || s.req == 32 || s.req == -4 {
					k2, w2 := one(s.req)
					emit(s.req, k2, w2)
				}
			}
		}
	}
}
