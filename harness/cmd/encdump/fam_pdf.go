//go:build verif && verifenc && enc_pdf

package main

import (
	"bufio"
	"fmt"

	"github.com/boombuler/barcode/pdf417"
)

func init() {
	encoders["pdf"] = func(content []int) ([]int, bool) {
		b := make([]byte, len(content))
		for i, c := range content {
			b[i] = byte(c)
		}
		cws, err := pdf417.VerifHighLevel(string(b))
		if err != nil {
			return nil, false
		}
		return cws, true
	}
	// every number of data codewords x every security level: the shape the real chooser returns
	wholeRun["pdfdims"] = func(w *bufio.Writer, _ string) {
		for m := 0; m <= 930; m++ {
			for lv := 0; lv <= 8; lv++ {
				k := 2 << uint(lv)
				cols, rows := pdf417.VerifDimensions(m, k)
				fmt.Fprintf(w, "{\"sym\":\"pdfdims\",\"m\":%d,\"lv\":%d,\"k\":%d,\"cols\":%d,\"rows\":%d}\n", m, lv, k, cols, rows)
			}
		}
	}
}
