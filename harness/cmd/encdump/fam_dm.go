//go:build verif && verifenc && enc_dm

package main

import "github.com/boombuler/barcode/datamatrix"

func init() {
	encoders["dm"] = func(content []int) ([]int, bool) {
		b := make([]byte, len(content))
		for i, c := range content {
			b[i] = byte(c)
		}
		cws := datamatrix.VerifEncodeText(string(b), *padFlag)
		out := make([]int, len(cws))
		for i, v := range cws {
			out[i] = int(v)
		}
		return out, true
	}
}
