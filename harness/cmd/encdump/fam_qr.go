//go:build verif && verifenc && enc_qr

package main

import (
	"bufio"
	"strconv"

	"github.com/boombuler/barcode/qr"
)

// harness numbering: level 0..3 = L, M, Q, H; mode 0 Auto, 1 Numeric, 2 AlphaNumeric, 3 Unicode (as cmd/drive)
func encodeQR(content string, level, mode int) (out []int, version int, ok bool) {
	defer func() {
		if r := recover(); r != nil {
			out, version, ok = []int{-1}, 0, false
		}
	}()
	lv := []qr.ErrorCorrectionLevel{qr.L, qr.M, qr.Q, qr.H}[level]
	md := []qr.Encoding{qr.Auto, qr.Numeric, qr.AlphaNumeric, qr.Unicode}[mode]
	bits, v, err := qr.VerifBitStream(content, lv, md)
	if err != nil {
		return nil, 0, false
	}
	out = make([]int, len(bits))
	for i, x := range bits {
		if x {
			out[i] = 1
		}
	}
	return out, v, true
}

func init() {
	// each string at all four levels and in all four API modes
	perString["qr"] = func(w *bufio.Writer, cur []int) {
		b := make([]byte, len(cur))
		for i, c := range cur {
			b[i] = byte(c)
		}
		for level := 0; level < 4; level++ {
			for mode := 0; mode < 4; mode++ {
				out, v, ok := encodeQR(string(b), level, mode)
				w.WriteString(`{"sym":"qr","content":`)
				writeInts(w, cur)
				w.WriteString(`,"p":[` + strconv.Itoa(level) + "," + strconv.Itoa(mode) + `],"v":` + strconv.Itoa(v) + `,"out":`)
				writeInts(w, out)
				if ok {
					w.WriteString(`,"ok":true}` + "\n")
				} else {
					w.WriteString(`,"ok":false}` + "\n")
				}
			}
		}
	}
}
