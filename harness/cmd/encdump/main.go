//go:build verif && verifenc

// encdump: conformance driver for the encoder models (spec/sym/PDFTextEnc, AztecHLEnc, Code128Enc).
// Enumerates every string prefix + suffix with |suffix| <= maxlen over the given alphabet - the state space of the
// corresponding MC_* model - calls the real high-level encoder through the verif accessors and writes one ndjson event
// per string: {"sym","content":[...],"out":[...],"ok":bool}.
package main

import (
	"bufio"
	"encoding/json"
	"flag"
	"fmt"
	"os"
	"strconv"
	"strings"

	"github.com/boombuler/barcode/aztec"
	"github.com/boombuler/barcode/code128"
	"github.com/boombuler/barcode/datamatrix"
	"github.com/boombuler/barcode/pdf417"
	"github.com/boombuler/barcode/qr"
)

func ints(s string) []int {
	var out []int
	for _, f := range strings.Split(s, ",") {
		f = strings.TrimSpace(f)
		if f == "" {
			continue
		}
		v, err := strconv.Atoi(f)
		if err != nil {
			fmt.Fprintln(os.Stderr, "bad int:", f)
			os.Exit(2)
		}
		out = append(out, v)
	}
	return out
}

func writeInts(w *bufio.Writer, xs []int) {
	w.WriteByte('[')
	for i, x := range xs {
		if i > 0 {
			w.WriteByte(',')
		}
		w.WriteString(strconv.Itoa(x))
	}
	w.WriteByte(']')
}

// harness numbering: level 0..3 = L, M, Q, H; mode 0 Auto, 1 Numeric, 2 AlphaNumeric, 3 Unicode (as cmd/drive)
func encodeQR(content string, level, mode int) (out []int, version int, ok bool) {
	defer func() {
		if r := recover(); r != nil {
			out, version, ok = []int{-1}, 0, false
		}
	}()
	lv := []qr.ErrorCorrectionLevel{qr.L, qr.M, qr.Q, qr.H}[level]
	md := []qr.Encoding{qr.Auto, qr.Numeric, qr.AlphaNumeric, qr.Unicode}[mode]
	bits, v, err := qr.VerifBitStream(content, lv, md)
	if err != nil {
		return nil, 0, false
	}
	out = make([]int, len(bits))
	for i, x := range bits {
		if x {
			out[i] = 1
		}
	}
	return out, v, true
}

// azsel: for every (payload, percentage) of the input the automatic size choice, and explicit requests for the sizes around it, made through
// the public API, together with the high-level bit stream the choice is based on (packed into bytes, most significant bit first).
func azsel(w *bufio.Writer, in string) {
	type size struct{ width, req int }
	var sizes []size
	for L := 1; L <= 4; L++ {
		sizes = append(sizes, size{11 + 4*L, -L})
	}
	for L := 1; L <= 32; L++ {
		b := 14 + 4*L
		sizes = append(sizes, size{b + 1 + 2*((b/2-1)/15), L})
	}
	f, err := os.Open(in)
	if err != nil {
		fmt.Fprintln(os.Stderr, err)
		os.Exit(2)
	}
	sc := bufio.NewScanner(f)
	sc.Buffer(make([]byte, 1<<20), 1<<26)
	for sc.Scan() {
		var j struct {
			Content []int `json:"content"`
			Pct     int   `json:"pct"`
		}
		if err := json.Unmarshal(sc.Bytes(), &j); err != nil {
			fmt.Fprintln(os.Stderr, err)
			os.Exit(2)
		}
		data := make([]byte, len(j.Content))
		for i, c := range j.Content {
			data[i] = byte(c)
		}
		bits := aztec.VerifHighLevel(data)
		packed := make([]int, (len(bits)+7)/8)
		for i, b := range bits {
			if b {
				packed[i/8] |= 0x80 >> uint(i%8)
			}
		}
		one := func(req int) (kind string, width int) {
			defer func() {
				if r := recover(); r != nil {
					kind, width = "panic", 0
				}
			}()
			bc, err := aztec.Encode(append([]byte(nil), data...), j.Pct, req)
			if err != nil || bc == nil {
				return "error", 0
			}
			return "ok", bc.Bounds().Dx()
		}
		emit := func(req int, kind string, width int) {
			w.WriteString(`{"sym":"azsel","content":`)
			writeInts(w, j.Content)
			w.WriteString(`,"p":[` + strconv.Itoa(j.Pct) + "," + strconv.Itoa(req) + `],"hln":` + strconv.Itoa(len(bits)) + `,"hlb":`)
			writeInts(w, packed)
			w.WriteString(`,"kind":"` + kind + `","w":` + strconv.Itoa(width) + "}\n")
		}
		kind, aw := one(0)
		emit(0, kind, aw)
		for _, s := range sizes {
			if kind != "ok" || (s.width >= aw-12 && s.width <= aw+4) {
				if kind == "ok" || s.req == 32 || s.req == -4 {
					k2, w2 := one(s.req)
					emit(s.req, k2, w2)
				}
			}
		}
	}
}

var padFlag = flag.Int("pad", 0, "dm: number of pad codewords to append")

func encode(sym string, content []int) (out []int, ok bool) {
	defer func() {
		if r := recover(); r != nil {
			out, ok = []int{-1}, false
		}
	}()
	switch sym {
	case "pdf":
		b := make([]byte, len(content))
		for i, c := range content {
			b[i] = byte(c)
		}
		cws, err := pdf417.VerifHighLevel(string(b))
		if err != nil {
			return nil, false
		}
		return cws, true
	case "aztec":
		b := make([]byte, len(content))
		for i, c := range content {
			b[i] = byte(c)
		}
		bits := aztec.VerifHighLevel(b)
		out = make([]int, len(bits))
		for i, x := range bits {
			if x {
				out[i] = 1
			}
		}
		return out, true
	case "dm":
		b := make([]byte, len(content))
		for i, c := range content {
			b[i] = byte(c)
		}
		cws := datamatrix.VerifEncodeText(string(b), *padFlag)
		out = make([]int, len(cws))
		for i, v := range cws {
			out[i] = int(v)
		}
		return out, true
	case "c128":
		r := make([]rune, len(content))
		for i, c := range content {
			r[i] = rune(c)
		}
		vals, ok := code128.VerifIndexList(string(r))
		if !ok {
			return nil, false
		}
		out = make([]int, len(vals))
		for i, v := range vals {
			out[i] = int(v)
		}
		return out, true
	}
	fmt.Fprintln(os.Stderr, "unknown sym", sym)
	os.Exit(2)
	return nil, false
}

func main() {
	sym := flag.String("sym", "", "pdf | aztec | c128 | dm | qr | pdfdims | azsel")
	alpha := flag.String("alphabet", "", "comma separated byte / rune values")
	maxlen := flag.Int("maxlen", 3, "maximal suffix length")
	prefix := flag.String("prefix", "", "comma separated fixed prefix")
	outp := flag.String("out", "", "output file (ndjson)")
	inp := flag.String("in", "", "azsel: input file, one {\"content\":[...],\"pct\":n} per line")
	flag.Parse()
	f, err := os.Create(*outp)
	if err != nil {
		fmt.Fprintln(os.Stderr, err)
		os.Exit(2)
	}
	w := bufio.NewWriterSize(f, 1<<20)
	if *sym == "azsel" {
		azsel(w, *inp)
		w.Flush()
		f.Close()
		return
	}
	if *sym == "pdfdims" { // every number of data codewords x every security level: the shape the real chooser returns
		for m := 0; m <= 930; m++ {
			for lv := 0; lv <= 8; lv++ {
				k := 2 << uint(lv)
				cols, rows := pdf417.VerifDimensions(m, k)
				fmt.Fprintf(w, "{\"sym\":\"pdfdims\",\"m\":%d,\"lv\":%d,\"k\":%d,\"cols\":%d,\"rows\":%d}\n", m, lv, k, cols, rows)
			}
		}
		w.Flush()
		f.Close()
		return
	}
	A := ints(*alpha)
	pre := ints(*prefix)
	cur := append([]int{}, pre...)
	var rec func()
	rec = func() {
		if *sym == "qr" {
			b := make([]byte, len(cur))
			for i, c := range cur {
				b[i] = byte(c)
			}
			for level := 0; level < 4; level++ {
				for mode := 0; mode < 4; mode++ {
					out, v, ok := encodeQR(string(b), level, mode)
					w.WriteString(`{"sym":"qr","content":`)
					writeInts(w, cur)
					w.WriteString(`,"p":[` + strconv.Itoa(level) + "," + strconv.Itoa(mode) + `],"v":` + strconv.Itoa(v) + `,"out":`)
					writeInts(w, out)
					if ok {
						w.WriteString(`,"ok":true}` + "\n")
					} else {
						w.WriteString(`,"ok":false}` + "\n")
					}
				}
			}
			if len(cur)-len(pre) >= *maxlen {
				return
			}
			for _, a := range A {
				cur = append(cur, a)
				rec()
				cur = cur[:len(cur)-1]
			}
			return
		}
		out, ok := encode(*sym, cur)
		w.WriteString(`{"sym":"` + *sym + `","content":`)
		writeInts(w, cur)
		w.WriteString(`,"out":`)
		writeInts(w, out)
		if *sym == "dm" {
			w.WriteString(`,"pad":` + strconv.Itoa(*padFlag))
		}
		if ok {
			w.WriteString(`,"ok":true}` + "\n")
		} else {
			w.WriteString(`,"ok":false}` + "\n")
		}
		if len(cur)-len(pre) >= *maxlen {
			return
		}
		for _, a := range A {
			cur = append(cur, a)
			rec()
			cur = cur[:len(cur)-1]
		}
	}
	rec()
	w.Flush()
	f.Close()
}
