//go:build verif && verifenc

// encdump: conformance driver for the encoder models (spec/sym/PDFTextEnc, AztecHLEnc, AztecSel, Code128Enc, DMEnc, QREnc, PDFDims).
// Enumerates every string prefix + suffix with |suffix| <= maxlen over the given alphabet - the state space of the corresponding MC_* model -
// calls the real encoder stage through the verif accessors and writes one ndjson event per string (see spec/trace/TraceEnc.tla).
// One family per build (tags enc_qr, enc_pdf, enc_aztec, enc_dm, enc_c128): a family whose accessor no longer builds against the tree under
// test does not take the others with it.
package main

import (
	"bufio"
	"flag"
	"fmt"
	"os"
	"strconv"
	"strings"
)

// string families: sym -> encoder stage; special families: sym -> whole-run function
var encoders = map[string]func(content []int) (out []int, ok bool){}
var perString = map[string]func(w *bufio.Writer, cur []int){}
var wholeRun = map[string]func(w *bufio.Writer, in string){}

var padFlag = flag.Int("pad", 0, "dm: number of pad codewords to append")

func ints(s string) []int {
	var out []int
	for _, f := range strings.Split(s, ",") {
		f = strings.TrimSpace(f)
		if f == "" {
			continue
		}
		v, err := strconv.Atoi(f)
		if err != nil {
			fmt.Fprintln(os.Stderr, "bad int:", f)
			os.Exit(2)
		}
		out = append(out, v)
	}
	return out
}

func writeInts(w *bufio.Writer, xs []int) {
	w.WriteByte('[')
	for i, x := range xs {
		if i > 0 {
			w.WriteByte(',')
		}
		w.WriteString(strconv.Itoa(x))
	}
	w.WriteByte(']')
}

func safe(f func(content []int) ([]int, bool), content []int) (out []int, ok bool) {
	defer func() {
		if r := recover(); r != nil {
			out, ok = []int{-1}, false
		}
	}()
	return f(content)
}

func main() {
	sym := flag.String("sym", "", "pdf | pdfdims | aztec | azsel | c128 | dm | qr (whichever this build contains)")
	alpha := flag.String("alphabet", "", "comma separated byte / rune values")
	maxlen := flag.Int("maxlen", 3, "maximal suffix length")
	prefix := flag.String("prefix", "", "comma separated fixed prefix")
	outp := flag.String("out", "", "output file (ndjson)")
	inp := flag.String("in", "", "azsel: input file, one {\"content\":[...],\"pct\":n} per line")
	flag.Parse()
	f, err := os.Create(*outp)
	if err != nil {
		fmt.Fprintln(os.Stderr, err)
		os.Exit(2)
	}
	w := bufio.NewWriterSize(f, 1<<20)
	defer func() {
		w.Flush()
		f.Close()
	}()
	if run, ok := wholeRun[*sym]; ok {
		run(w, *inp)
		return
	}
	enc, isEnc := encoders[*sym]
	per, isPer := perString[*sym]
	if !isEnc && !isPer {
		fmt.Fprintln(os.Stderr, "family not in this build:", *sym)
		os.Exit(2)
	}
	A := ints(*alpha)
	pre := ints(*prefix)
	cur := append([]int{}, pre...)
	var rec func()
	rec = func() {
		if isPer {
			per(w, cur)
		} else {
			out, ok := safe(enc, cur)
			w.WriteString(`{"sym":"` + *sym + `","content":`)
			writeInts(w, cur)
			w.WriteString(`,"out":`)
			writeInts(w, out)
			if *sym == "dm" {
				w.WriteString(`,"pad":` + strconv.Itoa(*padFlag))
			}
			if ok {
				w.WriteString(`,"ok":true}` + "\n")
			} else {
				w.WriteString(`,"ok":false}` + "\n")
			}
		}
		if len(cur)-len(pre) >= *maxlen {
			return
		}
		for _, a := range A {
			cur = append(cur, a)
			rec()
			cur = cur[:len(cur)-1]
		}
	}
	rec()
}
