//go:build verif && verifenc

// encdump: conformance driver for the encoder models (spec/sym/PDFTextEnc, AztecHLEnc, Code128Enc).
// Enumerates every string prefix + suffix with |suffix| <= maxlen over the given alphabet - the state space of the
// corresponding MC_* model - calls the real high-level encoder through the verif accessors and writes one ndjson event
// per string: {"sym","content":[...],"out":[...],"ok":bool}.
package main

import (
	"bufio"
	"flag"
	"fmt"
	"os"
	"strconv"
	"strings"

	"github.com/boombuler/barcode/aztec"
	"github.com/boombuler/barcode/code128"
	"github.com/boombuler/barcode/datamatrix"
	"github.com/boombuler/barcode/pdf417"
	"github.com/boombuler/barcode/qr"
)

func ints(s string) []int {
	var out []int
	for _, f := range strings.Split(s, ",") {
		f = strings.TrimSpace(f)
		if f == "" {
			continue
		}
		v, err := strconv.Atoi(f)
		if err != nil {
			fmt.Fprintln(os.Stderr, "bad int:", f)
			os.Exit(2)
		}
		out = append(out, v)
	}
	return out
}

func writeInts(w *bufio.Writer, xs []int) {
	w.WriteByte('[')
	for i, x := range xs {
		if i > 0 {
			w.WriteByte(',')
		}
		w.WriteString(strconv.Itoa(x))
	}
	w.WriteByte(']')
}

// harness numbering: level 0..3 = L, M, Q, H; mode 0 Auto, 1 Numeric, 2 AlphaNumeric, 3 Unicode (as cmd/drive)
func encodeQR(content string, level, mode int) (out []int, version int, ok bool) {
	defer func() {
		if r := recover(); r != nil {
			out, version, ok = []int{-1}, 0, false
		}
	}()
	lv := []qr.ErrorCorrectionLevel{qr.L, qr.M, qr.Q, qr.H}[level]
	md := []qr.Encoding{qr.Auto, qr.Numeric, qr.AlphaNumeric, qr.Unicode}[mode]
	bits, v, err := qr.VerifBitStream(content, lv, md)
	if err != nil {
		return nil, 0, false
	}
	out = make([]int, len(bits))
	for i, x := range bits {
		if x {
			out[i] = 1
		}
	}
	return out, v, true
}

var padFlag = flag.Int("pad", 0, "dm: number of pad codewords to append")

func encode(sym string, content []int) (out []int, ok bool) {
	defer func() {
		if r := recover(); r != nil {
			out, ok = []int{-1}, false
		}
	}()
	switch sym {
	case "pdf":
		b := make([]byte, len(content))
		for i, c := range content {
			b[i] = byte(c)
		}
		cws, err := pdf417.VerifHighLevel(string(b))
		if err != nil {
			return nil, false
		}
		return cws, true
	case "aztec":
		b := make([]byte, len(content))
		for i, c := range content {
			b[i] = byte(c)
		}
		bits := aztec.VerifHighLevel(b)
		out = make([]int, len(bits))
		for i, x := range bits {
			if x {
				out[i] = 1
			}
		}
		return out, true
	case "dm":
		b := make([]byte, len(content))
		for i, c := range content {
			b[i] = byte(c)
		}
		cws := datamatrix.VerifEncodeText(string(b), *padFlag)
		out = make([]int, len(cws))
		for i, v := range cws {
			out[i] = int(v)
		}
		return out, true
	case "c128":
		r := make([]rune, len(content))
		for i, c := range content {
			r[i] = rune(c)
		}
		vals, ok := code128.VerifIndexList(string(r))
		if !ok {
			return nil, false
		}
		out = make([]int, len(vals))
		for i, v := range vals {
			out[i] = int(v)
		}
		return out, true
	}
	fmt.Fprintln(os.Stderr, "unknown sym", sym)
	os.Exit(2)
	return nil, false
}

func main() {
	sym := flag.String("sym", "", "pdf | aztec | c128 | dm | qr | pdfdims")
	alpha := flag.String("alphabet", "", "comma separated byte / rune values")
	maxlen := flag.Int("maxlen", 3, "maximal suffix length")
	prefix := flag.String("prefix", "", "comma separated fixed prefix")
	outp := flag.String("out", "", "output file (ndjson)")
	flag.Parse()
	f, err := os.Create(*outp)
	if err != nil {
		fmt.Fprintln(os.Stderr, err)
		os.Exit(2)
	}
	w := bufio.NewWriterSize(f, 1<<20)
	if *sym == "pdfdims" { // every number of data codewords x every security level: the shape the real chooser returns
		for m := 0; m <= 930; m++ {
			for lv := 0; lv <= 8; lv++ {
				k := 2 << uint(lv)
				cols, rows := pdf417.VerifDimensions(m, k)
				fmt.Fprintf(w, "{\"sym\":\"pdfdims\",\"m\":%d,\"lv\":%d,\"k\":%d,\"cols\":%d,\"rows\":%d}\n", m, lv, k, cols, rows)
			}
		}
		w.Flush()
		f.Close()
		return
	}
	A := ints(*alpha)
	pre := ints(*prefix)
	cur := append([]int{}, pre...)
	var rec func()
	rec = func() {
		if *sym == "qr" {
			b := make([]byte, len(cur))
			for i, c := range cur {
				b[i] = byte(c)
			}
			for level := 0; level < 4; level++ {
				for mode := 0; mode < 4; mode++ {
					out, v, ok := encodeQR(string(b), level, mode)
					w.WriteString(`{"sym":"qr","content":`)
					writeInts(w, cur)
					w.WriteString(`,"p":[` + strconv.Itoa(level) + "," + strconv.Itoa(mode) + `],"v":` + strconv.Itoa(v) + `,"out":`)
					writeInts(w, out)
					if ok {
						w.WriteString(`,"ok":true}` + "\n")
					} else {
						w.WriteString(`,"ok":false}` + "\n")
					}
				}
			}
			if len(cur)-len(pre) >= *maxlen {
				return
			}
			for _, a := range A {
				cur = append(cur, a)
				rec()
				cur = cur[:len(cur)-1]
			}
			return
		}
		out, ok := encode(*sym, cur)
		w.WriteString(`{"sym":"` + *sym + `","content":`)
		writeInts(w, cur)
		w.WriteString(`,"out":`)
		writeInts(w, out)
		if *sym == "dm" {
			w.WriteString(`,"pad":` + strconv.Itoa(*padFlag))
		}
		if ok {
			w.WriteString(`,"ok":true}` + "\n")
		} else {
			w.WriteString(`,"ok":false}` + "\n")
		}
		if len(cur)-len(pre) >= *maxlen {
			return
		}
		for _, a := range A {
			cur = append(cur, a)
			rec()
			cur = cur[:len(cur)-1]
		}
	}
	rec()
	w.Flush()
	f.Close()
}
