#!/usr/bin/env python3
"""tools/seedtest.py <name> <worktree> <outdir> [--checks C09,C14] [--tier quick]
Confirms a seeded change (patch.diff + demo produced by an independent sub-agent) in a scratch worktree outside /repo and /verif:
  with the patch: builds, the repository's own tests pass, the demo fails;  without it: the demo passes.
Then runs the given checks against the patched worktree (VERIF_REPO) and records which of them report a VIOLATION.
Keeps the change as /verif/seeded/<name>/ (patch.diff, demo, meta.json with what was run and the detection results)."""
import argparse, json, os, shutil, subprocess, sys
V = os.path.dirname(os.path.dirname(os.path.abspath(__file__)))
ENV = dict(os.environ, GOFLAGS="-mod=mod", GOPROXY="off", GOSUMDB="off", GOTOOLCHAIN="local")


def sh(cmd, cwd=None, env=None, timeout=3000):
    p = subprocess.run(cmd, shell=True, cwd=cwd, env=env or ENV, capture_output=True, text=True, timeout=timeout)
    return p.returncode, (p.stdout + p.stderr)


def run_demo(out, wt):
    demo = os.path.join(out, "demo")
    d = demo if os.path.isdir(demo) else out
    gomod = os.path.join(d, "go.mod")
    if os.path.exists(gomod):
        has_test = any(f.endswith("_test.go") for f in os.listdir(d))
        race = "-race " if "race" in open(os.path.join(out, "meta.json")).read().lower() else ""
        rc, o = sh(("go test %s-vet=off -count=1 ./..." % race) if has_test else ("go run %s." % race), cwd=d, timeout=900)
        return rc, o
    # a _test.go meant to be dropped into a package dir: meta.json must say where (field demo_pkg)
    meta = json.load(open(os.path.join(out, "meta.json")))
    pkg = meta.get("demo_pkg")
    tests = [f for f in os.listdir(d) if f.endswith("_test.go")]
    if pkg is None or not tests:
        return None, "no runnable demo found"
    for t in tests:
        shutil.copy(os.path.join(d, t), os.path.join(wt, pkg, "zz_seeded_" + t))
    rc, o = sh("go test -vet=off -count=1 ./%s/" % pkg, cwd=wt, timeout=900)
    for t in tests:
        os.remove(os.path.join(wt, pkg, "zz_seeded_" + t))
    return rc, o


def main():
    ap = argparse.ArgumentParser()
    ap.add_argument("name")
    ap.add_argument("worktree")
    ap.add_argument("outdir")
    ap.add_argument("--checks", default="")
    ap.add_argument("--tier", default="quick")
    a = ap.parse_args()
    wt, out = a.worktree, a.outdir
    meta = json.load(open(os.path.join(out, "meta.json")))
    prop = meta.get("property", a.name[:3])
    checks = [c for c in (a.checks.split(",") if a.checks else [prop]) if c]
    log = {}
    rc, o = sh("git status --porcelain", cwd=wt)
    if o.strip():
        sh("git checkout -- . && git clean -fdq", cwd=wt)
    rc, o = run_demo(out, wt)
    log["demo_without_patch"] = "pass" if rc == 0 else "FAIL rc=%s: %s" % (rc, o[-400:])
    rc, o = sh("git apply %s" % os.path.join(out, "patch.diff"), cwd=wt)
    if rc != 0:
        print("patch does not apply:", o)
        sys.exit(2)
    rc, o = sh("go build ./... && go build -tags verif ./...", cwd=wt)
    log["build_with_patch"] = "ok" if rc == 0 else "FAIL " + o[-400:]
    rc, o = sh("go test -vet=off -count=1 ./...", cwd=wt)
    log["repo_tests_with_patch"] = "pass" if rc == 0 else "FAIL " + o[-400:]
    rc, o = run_demo(out, wt)
    log["demo_with_patch"] = "fails (as intended)" if rc not in (0, None) else "PASSES?! rc=%s %s" % (rc, o[-300:])
    det = {}
    for c in checks:
        env = dict(ENV, VERIF_REPO=wt)
        rc, o = sh("%s/bin/check %s --tier %s" % (V, c, a.tier), cwd=V, env=env, timeout=7200)
        lines = [l for l in o.splitlines() if l.startswith(("VIOLATION", "INCONCLUSIVE", "OK ", "KNOWN-FINDING"))]
        det[c] = dict(exit=rc, lines=[l[:300] for l in lines[:6]])
    sh("git checkout -- . && git clean -fdq", cwd=wt)
    for f in os.listdir(os.path.join(V, "replays")):
        pass
    log["detected_by"] = [c for c in det if det[c]["exit"] == 1]
    log["checks"] = det
    confirmed = log["demo_without_patch"] == "pass" and log["build_with_patch"] == "ok" and log["repo_tests_with_patch"] == "pass" and log["demo_with_patch"].startswith("fails")
    log["confirmed"] = confirmed
    dst = os.path.join(V, "seeded", a.name)
    if confirmed:
        if os.path.isdir(dst):
            shutil.rmtree(dst)
        os.makedirs(dst)
        shutil.copy(os.path.join(out, "patch.diff"), dst)
        for f in os.listdir(out):
            if f in ("patch.diff", "meta.json", "property.txt"):
                continue
            src = os.path.join(out, f)
            (shutil.copytree if os.path.isdir(src) else shutil.copy)(src, os.path.join(dst, f))
        meta["breaks_property"] = prop
        meta["confirmed_by_me"] = log
        json.dump(meta, open(os.path.join(dst, "meta.json"), "w"), indent=1)
    print(json.dumps(log, indent=1))


main()
