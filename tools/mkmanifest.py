#!/usr/bin/env python3
"""Writes MANIFEST.json from the table below (single source of truth for what is claimed)."""
import json, os
V = os.path.dirname(os.path.dirname(os.path.abspath(__file__)))
ALL = ["C%02d" % i for i in range(1, 19)]

CLAIMED = {
 "C18": dict(
   text="TLC model-checks that the transcription of the implementation (count + word slice + growth rule) refines the abstract bit-sequence "
        "specification BitList.tla for scaled constants, with the C18 statements as action properties; TLC-simulated behaviours of BitList.tla "
        "are replayed on the real utils.BitList and random long histories (crossing the 32-bit word and 128-/1024-word growth boundaries) are "
        "recorded and validated call by call against BitList.tla by the trace specification TraceBitList.tla.",
   note="Trusted: TLC/SANY/CommunityModules, the Go driver's bl op (calls each method, reads every bit back through GetBit). The refinement is "
        "exhaustive only for the scaled constants; the real constants are reached through replayed/recorded executions.",
   technique="TLA+ refinement model checking + behaviour replay + trace validation (TLC)", ref="5/C18"),
 "C17": dict(
   text="TLC checks the field laws (commutativity, associativity, distributivity, unique inverses, division undoes multiplication, log-based product = "
        "polynomial product mod pp, alpha generates the group) exhaustively for GF(16)..GF(256) and on covering sets for GF(1024)/GF(4096) for all six fields "
        "the library constructs, and model-checks the mutex-protected generator-polynomial cache (RSCache.tla: every request order and interleaving of 2-3 "
        "clients, plus a negative model without the lock). Recorded rows of Multiply/Divide/Invers (all operand pairs for fields <= 256), random polynomial "
        "add/multiply/divide calls and Reed-Solomon encoder histories (shuffled/increasing/decreasing check-symbol counts, repeated on warm and fresh encoders) "
        "are validated by TraceGF.tla against relations stated independently of the library's algorithm (r*b=a, a*r=1, p=q*d+r with deg r<deg d, codeword "
        "vanishes at alpha^(base+i)).",
   note="Trusted: TLC/SANY/CommunityModules (Bitwise xor override), the Go driver's gf/rs ops. GF(4096) operand pairs are sampled (16.7M pairs exceed TLC "
        "throughput); larger check-symbol counts (69..600) only in the thorough tier.",
   technique="TLA+ model checking of field laws and cache protocol + trace validation of recorded calls (TLC)", ref="5/C17"),
 "C09": dict(
   text="Scale.tla states the property declaratively (largest fitting factor, refusal exactly when it is 0, every admissible centred placement, fill elsewhere, "
        "metadata/content/checksum preserved). TLC checks that ScaleAlgo.tla, the transcription of the code's arithmetic, satisfies it for every source shape and "
        "request in a window including two-link chains; Apalache proves the factor/offset arithmetic for all naturals. Every pixel of every recorded Scale result "
        "(synthetic sources of arbitrary shape with/without colour scheme and checksum, one real symbol of every family, chains of up to three rescalings through "
        "the handle table, default and explicit fills) is validated by TraceScale.tla; sources are re-read afterwards and must be unchanged.",
   note="Trusted: TLC/SANY/CommunityModules/Apalache, the Go projection (pixel colour classes by == against the reference colour list). Request sizes beyond the "
        "recorded ones rest on the Apalache lemma plus the code matching ScaleAlgo on the window.",
   technique="TLA+ model checking (algorithm vs declarative spec) + Apalache lemma + pixel-level trace validation (TLC)", ref="5/C09"),
}

NOT_YET = "check not built yet in this revision (planned per DESIGN.md section 10); not claimed"

def main():
    checks = []
    for pid in ALL:
        if pid not in CLAIMED:
            continue
        c = CLAIMED[pid]
        checks.append(dict(
            property_id=pid,
            quick_cmd="bin/check %s --tier quick" % pid,
            thorough_cmd="bin/check %s --tier thorough" % pid,
            evidence_file="evidence/%s.json" % pid,
            replay_cmd_template="bin/check %s --replay {path}" % pid,
            engine="tlc",
            level_claimed=dict(category=c.get("category", "model_checking"), text=c["text"], design_ref="DESIGN.md section " + c["ref"]),
            level_note=c["note"], technique=c["technique"]))
    hooks_commits = []
    hp = os.path.join(V, "hooks_commits.txt")
    if os.path.exists(hp):
        hooks_commits = [l.strip() for l in open(hp) if l.strip()]
    m = dict(
        version=1,
        setup_cmd="tools/setup.sh",
        hooks=dict(guard="verif", enable="go build -tags verif (the harness is rebuilt from /repo's working tree by every check)",
                   baseline_off_cmd="cd /repo && go test -vet=off -count=1 ./...",
                   source_commits=hooks_commits, add_only=True),
        engines=[dict(name="tlc", path="/opt/veriftools/tla/tla2tools.jar", serves_properties=sorted(CLAIMED),
                      kind_free_text="TLA+ specifications under spec/ checked with TLC: bounded exhaustive model checking, simulation for behaviour "
                                     "generation, and monitor-style trace validation of events recorded from the real code"),
                 dict(name="go-harness", path="harness/", serves_properties=sorted(CLAIMED),
                      kind_free_text="stdlib-only Go driver that executes call lists against the real library and projects results to ndjson events")],
        checks=checks,
        not_applicable=[dict(property_id=p, reason=NA.get(p, NOT_YET)) for p in ALL if p not in CLAIMED],
        notes="Exit codes of bin/check: 0 held (KNOWN-FINDING lines possible), 1 VIOLATION, 2 INCONCLUSIVE (infrastructure/spec error, never a verdict).")
    json.dump(m, open(os.path.join(V, "MANIFEST.json"), "w"), indent=1)

NA = {}
if __name__ == "__main__":
    main()
