#!/usr/bin/env python3
"""Writes MANIFEST.json from the table below (single source of truth for what is claimed)."""
import json, os
V = os.path.dirname(os.path.dirname(os.path.abspath(__file__)))
ALL = ["C%02d" % i for i in range(1, 19)]
COMMON_NOTE = "Trusted: TLC/SANY/CommunityModules, the Go projection (pixel classes by == against the scheme colours; runes = Go's own iteration of the content string), the symbology tables written from the standards in tools/gentables1d.py (structural laws ASSUMEd in the modules)."

CLAIMED = {
 "C18": dict(
   text="TLC model-checks that the transcription of the implementation (count + word slice + growth rule) refines the abstract bit-sequence "
        "specification BitList.tla for scaled constants, with the C18 statements as action properties; TLC-simulated behaviours of BitList.tla "
        "are replayed on the real utils.BitList and random long histories (crossing the 32-bit word and 128-/1024-word growth boundaries) are "
        "recorded and validated call by call against BitList.tla by the trace specification TraceBitList.tla.",
   note="Trusted: TLC/SANY/CommunityModules, the Go driver's bl op (calls each method, reads every bit back through GetBit). The refinement is "
        "exhaustive only for the scaled constants; the real constants are reached through replayed/recorded executions.",
   technique="TLA+ refinement model checking + behaviour replay + trace validation (TLC)", ref="5/C18"),
 "C17": dict(
   text="TLC checks the field laws (commutativity, associativity, distributivity, unique inverses, division undoes multiplication, log-based product = "
        "polynomial product mod pp, alpha generates the group) exhaustively for GF(16)..GF(256) and on covering sets for GF(1024)/GF(4096) for all six fields "
        "the library constructs, and model-checks the mutex-protected generator-polynomial cache (RSCache.tla: every request order and interleaving of 2-3 "
        "clients, plus a negative model without the lock). Recorded rows of Multiply/Divide/Invers (all operand pairs for fields <= 256), random polynomial "
        "add/multiply/divide calls and Reed-Solomon encoder histories (shuffled/increasing/decreasing check-symbol counts, repeated on warm and fresh encoders) "
        "are validated by TraceGF.tla against relations stated independently of the library's algorithm (r*b=a, a*r=1, p=q*d+r with deg r<deg d, codeword "
        "vanishes at alpha^(base+i)).",
   note="Trusted: TLC/SANY/CommunityModules (Bitwise xor override), the Go driver's gf/rs ops. GF(4096) operand pairs are sampled (16.7M pairs exceed TLC "
        "throughput); larger check-symbol counts (69..600) only in the thorough tier.",
   technique="TLA+ model checking of field laws and cache protocol + trace validation of recorded calls (TLC)", ref="5/C17"),
 "C09": dict(
   text="Scale.tla states the property declaratively (largest fitting factor, refusal exactly when it is 0, every admissible centred placement, fill elsewhere, "
        "metadata/content/checksum preserved). TLC checks that ScaleAlgo.tla, the transcription of the code's arithmetic, satisfies it for every source shape and "
        "request in a window including two-link chains; Apalache proves the factor/offset arithmetic for all naturals. Every pixel of every recorded Scale result "
        "(synthetic sources of arbitrary shape with/without colour scheme and checksum, one real symbol of every family, chains of up to three rescalings through "
        "the handle table, default and explicit fills) is validated by TraceScale.tla; sources are re-read afterwards and must be unchanged.",
   note="Trusted: TLC/SANY/CommunityModules/Apalache, the Go projection (pixel colour classes by == against the reference colour list). Request sizes beyond the "
        "recorded ones rest on the Apalache lemma plus the code matching ScaleAlgo on the window.",
   technique="TLA+ model checking (algorithm vs declarative spec) + Apalache lemma + pixel-level trace validation (TLC)", ref="5/C09"),
 "C05": dict(
   text="Code128Enc.tla transcribes the encoder's code-set chooser; TLC checks the product encoder model || reader automaton for every string over a "
        "representative alphabet up to length 5 (thorough 6): what the model emits decodes to the input and it refuses exactly the unrepresentable strings. "
        "Every image the real encoder returns (all single characters, pairs, instantiated class strings, digit runs in every context, random strings up to 80, "
        "both checksum variants, colour variants) is validated by Trace1D.tla with the reference reader of Code128.tla: 11-module table patterns, stop pattern, "
        "modulo-103 check character, code-set automaton, decoded runes = content. The quick tier requires all 106 symbol values to have been decoded.",
   note=COMMON_NOTE, technique="TLA+ model checking of encoder-model x reader product + trace validation with a TLA+ reference reader (TLC)", ref="5/C05"),
 "C06": dict(
   text="MC_EAN explores the GS1 check-digit automaton for all digit strings (through a VIEW), shows exactly one final digit is accepted and that the reader "
        "inverts the standard's drawing rule. Recorded calls covering every (first digit, position, digit) cell of EAN-13 and every (position, digit) cell of EAN-8, "
        "with right and wrong check digits, all wrong lengths, non-digits and multi-byte runes at every position, are validated by Trace1D.tla: accept/reject exactly "
        "by the rule, guards, L/G/R patterns, parity pattern, decoded number = Content() = completed input, kind by length.",
   note=COMMON_NOTE + " The exhaustive 10^7/10^8 acceptance tables are not built; 13-digit acceptance is sampled.", technique="TLA+ model checking of the check automaton + trace validation with a TLA+ reference reader (TLC)", ref="5/C06"),
 "C07": dict(
   text="MC_Code39 checks, for every ASCII character (thorough: every pair), that the full-ASCII spelling resolves back and that the Code 39 / Code 93 readers invert "
        "the standards' drawing rules with and without check characters, with weights wrapping at 15/20. Recorded symbols for both symbologies x includeChecksum x "
        "fullASCII (all single characters, seeded/all pairs, random lengths up to 60, rejected rune classes) are validated by Trace1D.tla: start/stop, patterns, gaps / "
        "termination bar, modulo-43 / C and K check characters present exactly when requested, shift pairs resolved, decoded text = input.",
   note=COMMON_NOTE, technique="TLA+ model checking of reader vs drawing rule + trace validation with TLA+ reference readers (TLC)", ref="5/C07"),
 "C08": dict(
   text="MC_1DSmall checks for every Codabar string / digit string up to length 4 (thorough 5) that the readers invert the drawing rules (wide = 2 or 3 modules), that "
        "the interleaved pairing leaves nothing pending and that the check digit is the unique digit making the 3-1 sum a multiple of ten. Recorded calls (all Codabar "
        "strings over 23 characters up to length 3 plus seeded ones, all digit strings up to length 4 for both 2-of-5 variants, AddCheckSum on all of them, random longer "
        "ones) are validated by Trace1D.tla with run-length readers.",
   note=COMMON_NOTE + " Exhaustive Codabar length 5-6 and 2-of-5 length 6-7 are sampled, not exhaustive.", technique="TLA+ model checking of reader vs drawing rule + trace validation with TLA+ reference readers (TLC)", ref="5/C08"),
 "C14": dict(
   text="The check value is recomputed inside the TLA+ readers from the symbol values recovered from the image (EAN final digit, Code 128 modulo 103, Code 39 modulo 43) "
        "and compared with the recorded CheckSum() for all four EAN input lengths, random Code 128 and Code 39 contents in every option mix; each barcode of a sample is "
        "then scaled 1-3 times and TraceScale.tla requires the interface and value to be preserved link by link. Model phase: check automata of MC_EAN / MC_Code39.",
   note=COMMON_NOTE, technique="trace validation with TLA+ reference readers and the Scale handle-table spec (TLC)", ref="5/C14"),
 "C01": dict(
   text="QR.tla is a complete reference reader in TLA+: function-pattern geometry, BCH format/version words computed by division, unmasking, the placement walk, "
        "de-interleaving by the ISO block table, Reed-Solomon syndromes of every block over GF(256)/285, and the segment/terminator/pad automaton. TLC model-checks that "
        "the walk state machine equals the reader's closed form for all versions with RawModules(v) data modules, that the 32+34 BCH words have full minimum distance, "
        "the block-table laws, and that the stream at the capacity boundary of all 480 (version, level, mode) cells parses back. Every image returned by the real "
        "encoder (boundary lengths of every version x level x mode in the thorough tier, versions 1-8 plus seeded larger ones in the quick tier, all alphanumeric "
        "characters, all byte values, Auto on digit/alphanumeric/mixed/sign-bearing text, random contents) is validated by TraceQR.tla: decoded bytes = content.",
   note=COMMON_NOTE + " QR block table and alignment centres are written from ISO/IEC 18004 in tools/gentables1d.py. Any of the 8 masks is accepted (mask choice is not a property).",
   technique="TLA+ model checking of geometry/BCH/capacity + trace validation with a TLA+ reference reader (TLC)", ref="5/C01"),
 "C02": dict(
   text="DM.tla is a complete reference reader: the 24 ECC 200 sizes, L finder and clock track of every region, the Annex F placement algorithm as a state machine "
        "(corner cases, wrap-around, fixed pattern), Reed-Solomon blocks over GF(256)/301, the ASCII-encodation automaton with 253-state pad un-randomising. TLC checks "
        "for all 24 sizes that the placement assigns every module exactly once or leaves exactly the fixed pattern and uses data+check codewords, and that the encoder "
        "model of ASCII encodation and padding is inverted by the reader automaton for all class strings up to length 6 (thorough 8) and every pad run. Every image "
        "returned by the real encoder (both boundary codeword counts of each size in three recipes, all byte values, digit runs at every alignment, overflow, random) "
        "is validated by TraceDM.tla; the quick tier requires all 24 sizes to have been decoded.",
   note=COMMON_NOTE + " 144x144 check-word interleaving follows the ISO reference encoder.",
   technique="TLA+ model checking of the placement algorithm and encodation automaton + trace validation with a TLA+ reference reader (TLC)", ref="5/C02"),
 "C03": dict(
   text="Aztec.tla is a complete reference reader: bullseye, orientation marks, Reed-Solomon-valid mode message that must agree with the symbol size, complete reference "
        "grid, the layer spiral, RS over GF(64)/(256)/(1024)/(4096), no all-zero/all-one words, un-stuffing, and the Upper/Lower/Mixed/Punct/Digit/binary-shift automaton. "
        "TLC checks for all 36 sizes that the spiral visits exactly the non-function modules once, that a table-driven encoder model is inverted by the automaton for all "
        "strings up to length 3 over representative bytes and binary runs around the 31/62 boundaries, and the layer-selection rule. Every image returned by the real "
        "encoder (empty payload, every byte value, all class pairs/triples, punctuation pairs, binary runs, every size through explicit layer requests, random) is "
        "validated by TraceAztec.tla: decoded bytes = payload and explicit layer requests honoured exactly.",
   note=COMMON_NOTE + " A trailing all-ones pseudo binary shift shorter than one word is treated as stuffing padding, as readers do.",
   technique="TLA+ model checking of geometry and decoding automaton + trace validation with a TLA+ reference reader (TLC)", ref="5/C03"),
 "C04": dict(
   text="PDF417.tla is a complete reference reader: start/stop patterns, cluster (row mod 3) pattern tables, left/right row indicators (row number, row count, column count, "
        "security level), length descriptor, Reed-Solomon over GF(929), and the compaction automaton (text with four sub-modes, latches, shifts, pad rule; byte 901/924; "
        "numeric 902 with big-number conversion done on digit arrays; 913 shift). TLC checks the structural laws of all 2787 pinned patterns, that 3 generates GF(929)*, the "
        "conversion rules and the dimension obligations. Every image returned by the real encoder (all byte values alone and inside text, all class pairs/triples in odd and "
        "even lengths followed by a shifted byte, digit runs around 13/44, byte runs of every length mod 6, shapes over all nine levels, capacity boundary, random) is "
        "validated by TracePDF.tla: decoded bytes = data.",
   note=COMMON_NOTE + " The 3 x 929 bar patterns are pinned from the tree at the start of the task (tools/genpdftable.py) and admitted after TLC checked every structural law; "
        "an error already present there that respects all laws would not be noticed.",
   technique="TLA+ model checking of table laws and conversions + trace validation with a TLA+ reference reader (TLC)", ref="5/C04"),
 "C10": dict(
   text="Acceptance is a conjunct of every family's trace specification: the result shape must be exactly ok or error (panic, timeout, both and neither are events no action "
        "allows), ok implies not MustReject and error implies not MustAccept, where the predicates are the TLA+ Representable definitions (exact for the 1-D codes, QR "
        "capacity tables and DataMatrix ASCII length; two-sided for Aztec and PDF417 whose capacity depends on a compaction heuristic). TLC model-checks that these "
        "predicates are well defined at every boundary (480 QR capacity cells, 24 DataMatrix sizes, EAN check automaton, Codabar/2-of-5 acceptance, Aztec layer rule, "
        "PDF417 dimensions). Outcome-only events (about 16k quick) cover every entry point x each of the 256 byte values alone and embedded, special runes and truncated "
        "UTF-8, lengths 0/1/capacity/capacity+1 for every QR version x level x mode and DataMatrix size, all security levels 0..255, layer requests -6..34, percentages.",
   note=COMMON_NOTE + " 'Never hangs' is evidenced only by a 30 s per-call deadline.", technique="TLA+ acceptance predicates model-checked at their boundaries + trace validation of call outcomes (TLC)", ref="5/C10"),
 "C11": dict(
   text="Contract.tla states the rendering contract (origin, size equal to the pixel matrix and to a size the symbology's reader accepts, every pixel foreground or background "
        "of the scheme in force, ColorScheme()/ColorModel() = that scheme, kind and dimensionality, Content()) and 'the module pattern does not depend on the colour "
        "scheme' as an invariant over the state variable memo keyed without the scheme. Every family's trace specification evaluates it on all eleven encoder families x "
        "plain / WithColor variants x colour schemes over Gray, Gray16, RGBA, NRGBA, CMYK and RGBA64 models (named library schemes, fixed schemes, seeded random ones, a "
        "scheme whose model differs from its colours' types) x representative contents of the size classes.",
   note=COMMON_NOTE, technique="trace validation against a TLA+ contract with a handle/memo state (TLC)", ref="5/C11"),
 "C12": dict(
   text="The readers recover the declared strength from the symbol itself and count/validate the check words: QR level from both BCH-valid format copies = requested level and "
        "every block de-interleaved with the ISO (version, level) row is a Reed-Solomon codeword; PDF417 level from the row indicators of every row = requested level with "
        "2^(level+1) valid check words; Aztec check words x word size >= floor(data bits x pct / 100) with a Reed-Solomon-valid mode message agreeing with the size; "
        "DataMatrix ECC 200 check-word count of its size with all blocks valid. Inputs: QR versions x levels, PDF417 levels 0..8 x sizes, Aztec percentages x payloads x "
        "layer requests, all DataMatrix sizes. Model phase: MC_QRFormat (format words decode uniquely, block-table laws), MC_Aztec (layer rule keeps the percentage), MC_PDF417.",
   note=COMMON_NOTE, technique="trace validation with TLA+ reference readers + model checking of the tables/rules (TLC)", ref="5/C12"),
 "C13": dict(
   text="MinVersion (QR), MinSizeIdx (DataMatrix, greedy digit pairing), the Aztec layer rule and the PDF417 dimension obligations are TLA+ definitions model-checked for totality "
        "and monotonicity at every boundary. Size-only events sweep lengths across every capacity boundary of every QR version x level x mode (and Auto, which must use the "
        "densest expressible mode) and every DataMatrix codeword count boundary; for Aztec each automatically sized symbol is followed by explicit requests for smaller "
        "sizes, which must be refused (a property of pairs of events joined through the trace specification's state variable `auto`); PDF417 symbols are read and must "
        "carry fewer pad codewords than columns within 2..30 rows and columns.",
   note=COMMON_NOTE, technique="TLA+ size functions model-checked + trace validation of result sizes and event pairs (TLC)", ref="5/C13"),
 "C15": dict(
   text="Barcode.tla is the umbrella specification (handle table, caller buffers, learnt function memo, cache); TLC explores every order of encode / one-shot / mutate / re-read "
        "with abstract encoders, and two deliberately wrong variants (a barcode that keeps a reference to the caller's buffer; output depending on the cache) must violate "
        "Immutable / Deterministic; RSCache.tla shows results are independent of request order and interleaving. Recorded histories (quick: 3 x 250 encodes across all "
        "symbologies and parameters in one process, sorted increasing/decreasing/shuffled so the caches grow in different orders, re-encodes of earlier arguments, re-reads "
        "of handles, mutation of every byte of every []byte argument followed by re-reads, 50 encodes repeated in freshly started processes) are validated by TraceHist.tla.",
   note=COMMON_NOTE + " Observations are SHA-256 digests of the pixel classes plus every accessor.", technique="TLA+ model checking of the umbrella spec (with negative variants) + trace validation of histories (TLC)", ref="5/C15"),
 "C16": dict(
   text="RSCache.tla (mutex-protected lazily grown cache, one action per step of the code; mutual exclusion, cache correctness, append-only, every call returns; negative model "
        "without the lock) and Pipelines.tla (the three goroutine/channel pipelines of the QR encoder; termination and NoLeak under fairness; negative models where produced "
        "!= consumed leak or zero-fill) are model-checked. Code -> spec: cmd/stress (-tags verif -race) runs mixed symbologies + Scale from cold start in fresh processes with "
        "2..64 goroutines and GOMAXPROCS 1..16; hook events taken under the mutex, goroutine spawn/exit, produced/consumed byte counts, per-call digests vs the result alone, "
        "goroutines left alive, race reports and watchdog timeouts are validated by TraceConc.tla. Spec -> code: TLC-simulated behaviours of RSCache.tla are imposed on real "
        "goroutines sharing one encoder through the blocking hook and the observed lock/extend/unlock sequence and results are validated (TraceConc, TraceGF).",
   note=COMMON_NOTE + " 'No data race' for memory the specification does not name is observed by the Go race detector; the scheduler is steered only at hook points.",
   technique="TLA+ model checking of cache protocol and pipelines + trace validation of hooked concurrent executions + schedule replay (TLC)", ref="5/C16"),
}

NOT_YET = "check not built yet in this revision (planned per DESIGN.md section 10); not claimed"

def main():
    checks = []
    for pid in ALL:
        if pid not in CLAIMED:
            continue
        c = CLAIMED[pid]
        checks.append(dict(
            property_id=pid,
            quick_cmd="bin/check %s --tier quick" % pid,
            thorough_cmd="bin/check %s --tier thorough" % pid,
            evidence_file="evidence/%s.json" % pid,
            replay_cmd_template="bin/check %s --replay {path}" % pid,
            engine="tlc",
            level_claimed=dict(category=c.get("category", "model_checking"), text=c["text"], design_ref="DESIGN.md section " + c["ref"]),
            level_note=c["note"], technique=c["technique"]))
    hooks_commits = []
    hp = os.path.join(V, "hooks_commits.txt")
    if os.path.exists(hp):
        hooks_commits = [l.strip() for l in open(hp) if l.strip()]
    m = dict(
        version=1,
        setup_cmd="tools/setup.sh",
        hooks=dict(guard="verif", enable="go build -tags verif (the harness is rebuilt from /repo's working tree by every check); the encoder-model conformance driver cmd/encdump adds the second tag verifenc (files */verif_enc.go need both tags)",
                   baseline_off_cmd="cd /repo && go test -vet=off -count=1 ./...",
                   source_commits=hooks_commits, add_only=True),
        engines=[dict(name="tlc", path="/opt/veriftools/tla/tla2tools.jar", serves_properties=sorted(CLAIMED),
                      kind_free_text="TLA+ specifications under spec/ checked with TLC: bounded exhaustive model checking, simulation for behaviour "
                                     "generation, and monitor-style trace validation of events recorded from the real code"),
                 dict(name="go-harness", path="harness/", serves_properties=sorted(CLAIMED),
                      kind_free_text="stdlib-only Go driver that executes call lists against the real library and projects results to ndjson events")],
        checks=checks,
        not_applicable=[dict(property_id=p, reason=NA.get(p, NOT_YET)) for p in ALL if p not in CLAIMED],
        notes="Exit codes of bin/check: 0 held (KNOWN-FINDING lines possible), 1 VIOLATION, 2 INCONCLUSIVE (infrastructure/spec error, never a verdict). "
              "Stages added to the checks after the level texts above were written (DESIGN.md 12.6, 12.10): conformance of the real encoder stages with the encoder models "
              "(QREnc, DMEnc, AztecHLEnc, AztecSel, PDFTextEnc, PDFDims, Code128Enc) over the models' state spaces through trace specification TraceEnc (C01-C05, C10, C12, C13); "
              "refused-then-accepted call pairs and a GOMAXPROCS environment stage (1, 3, 7, 128) in every check that reads symbols back (C01-C08, C10-C14); argument-variation, "
              "misuse-then-plain and other-GOMAXPROCS fresh processes in C15; cold-start classes and a progress-based watchdog in C16. VERIF_SEED selects the generators' seed (default 1).")
    json.dump(m, open(os.path.join(V, "MANIFEST.json"), "w"), indent=1)

NA = {}
if __name__ == "__main__":
    main()
