#!/usr/bin/env python3
"""tools/selftest.py - demonstrates that every trace specification is bound to what the code returned:
records a small trace from the real code (accepted by the specification), then corrupts ONE recorded field or drops ONE hook
event and shows that TLC's validation now rejects exactly that event. Not a manifest check; prints a table and exits 0 iff
every corruption was noticed and every uncorrupted trace was accepted."""
import copy, json, os, subprocess, sys
sys.path.insert(0, os.path.dirname(os.path.abspath(__file__)))
sys.path.insert(0, os.path.join(os.path.dirname(os.path.dirname(os.path.abspath(__file__))), "checks"))
import vlib, gen, onedim


def validate(work, module, evs, heap="4g"):
    _, bad, _, _ = vlib.validate_traces(work, module, module + ".cfg", [evs], heap=heap, timeout=1200)
    return [(b["l"], b["why"]) for b in bad]


def flip(px, y, x):
    px[y][x] = 1 - px[y][x]


def main():
    work = vlib.scratch("verif-selftest-")
    drive = vlib.build_harness(work)
    rows, ok = [], True

    def case(name, module, evs, corrupt, expect_line=None):
        nonlocal ok
        base = validate(work, module, evs)
        c = copy.deepcopy(evs)
        line = corrupt(c)
        got = validate(work, module, c)
        good = base == [] and any(l == (expect_line or line) for l, _ in got)
        ok = ok and good
        rows.append((name, module, "accepted" if base == [] else "REJECTED %r" % base[:2], "rejected at line %d: %s" % (got[0][0], got[0][1]) if got else "NOT NOTICED", "ok" if good else "FAIL"))

    # BitList: one byte of a GetBytes result
    evs = vlib.run_drive(drive, [dict(op="bl", obj=1, call="New", a=[0], full=True), dict(op="bl", obj=1, call="AddBits", a=[1234567, 21], full=True),
                                 dict(op="bl", obj=1, call="AddByte", a=[165], full=False), dict(op="bl", obj=1, call="GetBytes", a=[], full=False)], work, name="s1")
    def c1(c):
        c[3]["res"]["ret"][1] ^= 4
        return 4
    case("GetBytes byte altered", "TraceBitList", evs, c1)
    def c1b(c):
        c[1]["res"]["bits"][5] ^= 1
        return 2
    case("one bit of the logged state altered", "TraceBitList", evs, c1b)
    # GF / RS
    evs = vlib.run_drive(drive, [dict(op="gf", field=[285, 256, 0], call="mulrow", a=[87], b=list(range(256))), dict(op="rs", obj=1, field=[285, 256, 0], a=[1, 2, 3, 4, 5], n=7),
                                 dict(op="gf", field=[301, 256, 1], call="pdiv", a=[5, 4, 3, 2, 1, 9], b=[3, 1, 7])], work, name="s2")
    def c2(c):
        c[1]["res"]["out"][3] ^= 1
        return 2
    case("one Reed-Solomon check symbol altered", "TraceGF", evs, c2)
    def c2b(c):
        c[0]["res"]["out"][100] ^= 1
        return 1
    case("one product altered", "TraceGF", evs, c2b)
    def c2c(c):
        c[2]["res"]["rem"][-1] ^= 1
        return 3
    case("remainder of a polynomial division altered", "TraceGF", evs, c2c)
    # Scale
    evs = vlib.run_drive(drive, [gen.enc("c128", "AB", (), hid=1), dict(op="scale", src=1, w=150, hh=3, hid=2), dict(op="reread", src=1)], work, name="s3")
    def c3(c):
        c[1]["res"]["px"][1][40] = 1 - c[1]["res"]["px"][1][40] if c[1]["res"]["px"][1][40] in (0, 1) else 0
        return 2
    case("one pixel of a scaled image altered", "TraceScale", evs, c3)
    def c3b(c):
        c[1]["res"]["cs"] += 1
        return 2
    case("checksum of the scaled barcode altered", "TraceScale", evs, c3b)
    # 1-D
    evs = vlib.run_drive(drive, [gen.enc("c128", "Hello12", ()), gen.enc("ean", "590123412345", ()), gen.enc("c39", "AB", (1, 0)), gen.enc("c93", "AB", (1, 0)),
                                 gen.enc("codabar", "A12B", ()), gen.enc("25", "1234", (1,))], work, name="s4")
    for k, nm in enumerate(["Code 128", "EAN-13", "Code 39", "Code 93", "Codabar", "2 of 5"]):
        def c4(c, k=k):
            row = c[k]["res"]["px"][0]
            row[len(row) // 2] = 1 - row[len(row) // 2]
            return k + 1
        case("one module of a %s symbol flipped" % nm, "Trace1D", evs, c4)
    def c4b(c):
        c[1]["res"]["cs"] = (c[1]["res"]["cs"] + 3) % 10
        return 2
    case("EAN CheckSum() altered", "Trace1D", evs, c4b)
    def c4c(c):
        c[0]["res"]["kind"] = "panic"
        return 1
    case("result kind changed to panic", "Trace1D", evs, c4c)
    # 2-D
    for sym, content, p, module in (("qr", "HELLO WORLD 123", (2, 0), "TraceQR"), ("dm", "Hello 123456", (), "TraceDM"), ("aztec", "Aztec code 1", (33, 0), "TraceAztec"), ("pdf", "PDF417 sample", (2,), "TracePDF")):
        evs = vlib.run_drive(drive, [gen.enc(sym, content, p)], work, name="s5")
        def c5(c):
            px = c[0]["res"]["px"]
            h, w = len(px), len(px[0])
            if sym == "pdf":
                for y in (0, 1):
                    flip(px, y, 17 * 2 + 8)
            elif sym == "qr":
                flip(px, h - 1, w - 1)
            elif sym == "dm":
                flip(px, h // 2, w // 2)
            else:
                flip(px, 0, 0)
            return 1
        case("one module of a %s symbol flipped" % sym, module, evs, c5)
        def c5b(c):
            c[0]["res"]["content"] = c[0]["res"]["content"][:-1]
            return 1
        case("%s Content() truncated" % sym, module, evs, c5b)
    # histories
    jobs = [dict(gen.enc("dm", "abc", (), hid=1, proj="digest"), skey=""), dict(gen.enc("qr", "abc", (1, 0), hid=2, proj="digest"), skey=""), dict(gen.enc("dm", "abc", (), hid=3, proj="digest"), skey=""),
            dict(op="reread", src=1, proj="digest")]
    evs = vlib.run_drive(drive, jobs, work, name="s6")
    def c6(c):
        c[2]["res"]["pxdigest"] = "00" + c[2]["res"]["pxdigest"][2:]
        return 3
    case("digest of a repeated encode altered", "TraceHist", evs, c6)
    def c6b(c):
        c[3]["res"]["content"] = [120]
        return 4
    case("Content() of a re-read handle altered", "TraceHist", evs, c6b)
    # concurrency: drop one hook event
    stress = vlib.build_harness(work, race=True, cmd="stress")
    jp, ep = os.path.join(work, "sj"), os.path.join(work, "se")
    vlib.write_ndjson(jp, [dict(sym="qr", content=list(b"HELLO"), p=[1, 0], key=1), dict(sym="dm", content=list(b"HELLO12"), p=[], key=2), dict(sym="qr", content=list(b"12345678"), p=[3, 1], key=3)])
    subprocess.run([stress, "-in", jp, "-out", ep, "-g", "4", "-rounds", "2"], check=True, capture_output=True)
    evs = vlib.read_ndjson(ep)
    def c7(c):
        k = next(i for i, e in enumerate(c) if e["op"] == "hook" and e["ev"] == "rs.unlock")
        del c[k]
        return None
    base = validate(work, "TraceConc", evs)
    c = copy.deepcopy(evs)
    c7(c)
    got = validate(work, "TraceConc", c)
    good = base == [] and any(w in ("mutual-exclusion", "lock-never-released") for _, w in got)
    ok = ok and good
    rows.append(("one rs.unlock hook event dropped", "TraceConc", "accepted" if base == [] else "REJECTED", "rejected: %s" % got[0][1] if got else "NOT NOTICED", "ok" if good else "FAIL"))
    c = copy.deepcopy(evs)
    k = next(i for i, e in enumerate(c) if e["op"] == "hook" and e["ev"] == "go.exit")
    del c[k]
    got = validate(work, "TraceConc", c)
    good = any(w in ("goroutine-never-exited", "goroutine-accounting") for _, w in got)
    ok = ok and good
    rows.append(("one go.exit hook event dropped", "TraceConc", "accepted", "rejected: %s" % got[0][1] if got else "NOT NOTICED", "ok" if good else "FAIL"))
    c = copy.deepcopy(evs)
    k = next(i for i, e in enumerate(c) if e["op"] == "cencode")
    c[k]["digest"] = "deadbeef"
    got = validate(work, "TraceConc", c)
    good = any(w.startswith("differs") for _, w in got)
    ok = ok and good
    rows.append(("digest of one concurrent call altered", "TraceConc", "accepted", "rejected: %s" % got[0][1] if got else "NOT NOTICED", "ok" if good else "FAIL"))
    # encoder-model conformance: one recorded output element of each real encoder stage altered
    encs = []
    for fam, args in (("pdf", ["-sym", "pdf", "-alphabet", "65,97,49,59", "-maxlen", "2"]), ("aztec", ["-sym", "aztec", "-alphabet", "65,97,49,33", "-maxlen", "2"]),
                      ("c128", ["-sym", "c128", "-alphabet", "49,65,97,1", "-maxlen", "2"]), ("dm", ["-sym", "dm", "-alphabet", "53,65,200", "-maxlen", "2", "-pad", "3"]),
                      ("qr", ["-sym", "qr", "-alphabet", "49,65,97", "-maxlen", "1"]), ("pdf", ["-sym", "pdfdims"])):
        b = vlib.build_harness(work, tags="verif verifenc enc_" + fam, cmd="encdump", suffix="-" + fam)
        out = os.path.join(work, "enc.ndjson")
        subprocess.run([b, "-out", out] + args, check=True, capture_output=True)
        evs = vlib.read_ndjson(out)
        if args[1] == "pdfdims":
            evs = evs[100:140]
            def cc(c):
                c[7]["rows"] += 1
                return 8
            case("rows chosen by calcDimensions altered", "TraceEnc", evs, cc)
            continue
        k = next(i for i, e in enumerate(evs) if e["ok"] and len(e["out"]) >= 2 and i > 3)
        def cc(c, k=k, fam=fam):
            c[k]["out"][-1] = (c[k]["out"][-1] + 1) % (2 if fam in ("aztec", "qr") else 90)
            return k + 1
        case("last element of one recorded %s encoder output altered" % fam, "TraceEnc", evs[:40] if fam != "qr" else evs[:48], cc) if k < 40 else None
    b = vlib.build_harness(work, tags="verif verifenc enc_aztec", cmd="encdump", suffix="-aztec")
    vlib.write_ndjson(os.path.join(work, "azin"), [dict(content=list(b"HELLO AZTEC 123"), pct=33), dict(content=list(b"x" * 60), pct=23)])
    subprocess.run([b, "-sym", "azsel", "-in", os.path.join(work, "azin"), "-out", os.path.join(work, "azout")], check=True, capture_output=True)
    evs = vlib.read_ndjson(os.path.join(work, "azout"))
    def cs(c):
        c[0]["w"] += 4
        return 1
    case("size chosen by aztec.Encode altered", "TraceEnc", evs, cs)
    print("| corruption | trace spec | recorded trace | corrupted trace | |")
    print("|---|---|---|---|---|")
    for r in rows:
        print("| %s | %s | %s | %s | %s |" % r)
    sys.exit(0 if ok else 1)


main()
