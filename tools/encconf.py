"""Conformance of the real high-level encoders with the encoder models (PDFTextEnc, AztecHLEnc, Code128Enc).

harness/cmd/encdump (build tags verif + verifenc, accessors pdf417.VerifHighLevel / aztec.VerifHighLevel / code128.VerifIndexList)
enumerates the state space of the family's MC_* model - every string prefix+suffix up to a length bound over the model's alphabet -
and records what the real encoder emits; spec/trace/TraceEnc.tla compares every record with the model's output and, where they
differ, runs the recorded output through the family's decoding automaton ("drift" = different but decodes, "hl-wrong" = does not).
Neither tag is a verdict: the caller encodes those inputs through the public API and lets the full reference reader judge them.
If the accessors do not build against the tree under test (code refactored away from under them) the stage is skipped and says so."""
import hashlib, json, os, random, subprocess
import vlib

SPACES = {
    # sym: (alphabet, [(prefix, suffix_len_quick, suffix_len_thorough, alphabet override)])   - mirrors MC_PDFText / MC_AztecHL / MC_Code128 cfgs
    "pdf": ([65, 97, 49, 59, 44, 32, 128], [((), 6, 7, None), ((49, 49, 59, 59, 59), 7, 7, [97, 128, 59])]),
    "aztec": ([65, 97, 49, 32, 33, 64, 128, 44, 46, 58, 13, 10, 34], [((), 4, 5, None), ((33, 33, 33, 33, 33), 2, 2, None)]),
    "dm": ([53, 65, 200, 181, 48], [((), 5, 7, None), ((65,) * 20, 3, 4, None)]),     # 181 = 0xB5: a byte above 127 whose low seven bits are a digit
    "qr": ([49, 57, 65, 58, 97, 43, 32, 200], [((), 3, 4, None), ((57,) * 30, 2, 3, None), ((65,) * 21, 2, 3, None),
                                                   # runs that cross the version-1 capacity at level H in each mode (17 digits / 10 alphanumeric / 7 bytes) and at level L (41 / 25 / 17)
                                                   ((49, 49, 49), 2, 3, None), ((49,) * 6, 2, 2, None),      # a non-digit on a three-digit group boundary
                                                   ((49,) * 15, 2, 3, None), ((65,) * 8, 2, 3, None), ((97,) * 5, 2, 3, None),
                                                   ((49,) * 39, 2, 3, None), ((65,) * 23, 2, 3, None), ((97,) * 15, 2, 3, None)]),   # each string x 4 levels x 4 API modes
    "c128": ([49, 55, 241, 242, 65, 97, 1, 200], [((), 5, 6, None)]),
}


def conformance(chk, sym, quick, nshards=8, drift_cap=150):
    """Returns (wrong, drift_sample): lists of recorded events (content = list of ints, qr: p = [level, API mode]). Records coverage in chk.cov['encoder_model_conformance']."""
    cov = chk.cov.setdefault("encoder_model_conformance", {})
    try:
        binary = vlib.build_harness(chk.work, tags="verif verifenc enc_" + sym, cmd="encdump", suffix="-" + sym)
    except vlib.Inconclusive as e:
        cov[sym] = dict(skipped="accessors do not build against this tree: " + str(e)[-300:])
        return [], []
    alpha, spaces = SPACES[sym]
    evs = []
    for k, (prefix, lq, lt, alt) in enumerate(spaces):
        out = os.path.join(chk.work, "enc-%s-%d.ndjson" % (sym, k))
        p = subprocess.run([binary, "-sym", sym, "-alphabet", ",".join(map(str, alt or alpha)), "-maxlen", str(lq if quick else lt),
                            "-prefix", ",".join(map(str, prefix)), "-out", out] + (["-pad", str(7 + 30 * k)] if sym == "dm" else []), capture_output=True, text=True, timeout=3000)
        if p.returncode != 0:
            raise vlib.Inconclusive("encdump failed: " + p.stderr[-500:])
        evs += vlib.read_ndjson(out)
        os.remove(out)
    n = max(1, min(nshards, len(evs) // 2000 + 1))
    shards = [evs[i::n] for i in range(n)]
    acc, bad, st, tr, extras = vlib.validate_traces(chk.work, "TraceEnc", "TraceEnc.cfg", shards, heap="4g", timeout=6000, par=n, want_extra=True)
    chk.cov["states"] += st
    chk.cov["transitions"] += tr
    if any(b["why"] == "unknown-event" for b in bad):
        raise vlib.Inconclusive("TraceEnc met an unknown event")
    wrong = [b["event"] for b in bad if b["why"] == "hl-wrong"]
    drift = [b["event"] for b in bad if b["why"] == "drift"]
    rng = random.Random(chk.rng.random())
    sample = drift if len(drift) <= drift_cap else rng.sample(drift, drift_cap)
    cov[sym] = dict(strings_compared=len(evs), identical_to_model=sum(x.get("same", 0) for x in extras), drift=len(drift), drift_revalidated_through_reader=len(sample),
                    not_decodable_by_automaton=len(wrong), spaces=[dict(prefix=list(p), max_suffix=(lq if quick else lt), alphabet=list(alt or alpha)) for (p, lq, lt, alt) in spaces])
    return wrong[:400], sample


def dims_conformance(chk, drift_cap=60):
    """PDF417 shape chooser: calcDimensions for every number of data codewords 0..930 x level 0..8 against PDFDims (TraceEnc, sym pdfdims).
    Returns (wrong, drift_sample) as lists of (m, lv)."""
    cov = chk.cov.setdefault("encoder_model_conformance", {})
    try:
        binary = vlib.build_harness(chk.work, tags="verif verifenc enc_pdf", cmd="encdump", suffix="-pdf")
    except vlib.Inconclusive as e:
        cov["pdfdims"] = dict(skipped="accessors do not build against this tree: " + str(e)[-300:])
        return [], []
    out = os.path.join(chk.work, "enc-pdfdims.ndjson")
    p = subprocess.run([binary, "-sym", "pdfdims", "-out", out], capture_output=True, text=True, timeout=600)
    if p.returncode != 0:
        raise vlib.Inconclusive("encdump failed: " + p.stderr[-500:])
    evs = vlib.read_ndjson(out)
    os.remove(out)
    shards = [evs[i::4] for i in range(4)]
    acc, bad, st, tr, extras = vlib.validate_traces(chk.work, "TraceEnc", "TraceEnc.cfg", shards, heap="3g", timeout=3000, par=4, want_extra=True)
    chk.cov["states"] += st
    chk.cov["transitions"] += tr
    wrong = [(b["event"]["m"], b["event"]["lv"]) for b in bad if b["why"] == "hl-wrong"]
    drift = [(b["event"]["m"], b["event"]["lv"]) for b in bad if b["why"] == "drift"]
    rng = random.Random(chk.rng.random())
    sample = drift if len(drift) <= drift_cap else rng.sample(drift, drift_cap)
    cov["pdfdims"] = dict(shapes_compared=len(evs), identical_to_model=sum(x.get("same", 0) for x in extras), drift=len(drift), drift_revalidated_through_reader=len(sample),
                          violating_shape_rules=len(wrong))
    return wrong[:120], sample


def aztec_selection(chk, quick, drift_cap=120):
    """Aztec size selection: aztec.Encode's choice (automatic and explicit requests around it) for payloads of every length 0..300 of five
    alphabets at several percentages, plus long payloads up to the largest symbol, against AztecSel!Select applied to the recorded high-level
    bit stream (TraceEnc, sym azsel). Returns the drift / hl-wrong events (content, p = [pct, req]); callers re-run them through the public
    API with pixels (and, for C13, in pairs with the automatic choice)."""
    cov = chk.cov.setdefault("encoder_model_conformance", {})
    try:
        binary = vlib.build_harness(chk.work, tags="verif verifenc enc_aztec", cmd="encdump", suffix="-aztec")
    except vlib.Inconclusive as e:
        cov["aztec_selection"] = dict(skipped="accessors do not build against this tree: " + str(e)[-300:])
        return []
    # The sweep is the same for the four checks that use it (C03, C10, C12, C13); its result - the list of inputs on which the code left the
    # model, nothing else - is kept in /verif/.cache under a key over every .go file of the tree under test, the harness, the specification,
    # seed and tier, so that a run over all checks computes it once. Those inputs are always re-executed through the public API by the caller.
    key = _tree_key(quick)
    cpath = os.path.join(vlib.VERIF, ".cache", "azsel-%s.json" % key)
    if os.path.exists(cpath):
        try:
            c = json.load(open(cpath))
            cov["aztec_selection"] = dict(c["cov"], reused_result_of_same_tree_seed_tier=True)
            return c["events"]
        except Exception:
            pass
    rng = random.Random(vlib.seed() * 7919 + (1 if quick else 2))
    pcts = sorted(set([0, 10, 23, 33] + rng.sample(range(0, 101), 1 if quick else 8)))
    jobs = []
    for alpha in (b"ABCDEFGHIJKLMNOPQRSTUVWXYZ", b"0123456789", bytes(range(128, 160)), b"abc xyz, 12. AB", b"\x00\xff"):
        for pct in pcts:
            text = [rng.choice(alpha) for _ in range(301)]
            jobs += [dict(content=text[:n], pct=pct) for n in range(0, 301)]
    for _ in range(30 if quick else 200):       # long payloads: the upper sizes and the refusal beyond the largest symbol
        alpha = rng.choice([b"ABCDEFGH IJ", b"0123456789", bytes(range(128, 140)), b"\x00", b"\xff"])
        n = rng.choice([400, 700, 1000, 1500, 1900, 2400, 2800, 3000, 3100, 3500]) + rng.randrange(60)
        jobs.append(dict(content=[rng.choice(alpha) for _ in range(n)], pct=rng.choice([0, 1, 10, 23, 33])))
    # the last change of codeword size (full-range 22 -> 23 layers, 10 -> 12 bits) with payloads that stuffing expands most: every length around it
    for fill in (0x00, 0xFF):
        for pct in ((23, 33) if quick else (0, 5, 10, 16, 23, 30, 33, 36)):
            jobs += [dict(content=[fill] * n, pct=pct) for n in range(930, 1071)]
    inp = os.path.join(chk.work, "azsel-in.ndjson")
    out = os.path.join(chk.work, "azsel-out.ndjson")
    vlib.write_ndjson(inp, jobs)
    p = subprocess.run([binary, "-sym", "azsel", "-in", inp, "-out", out], capture_output=True, text=True, timeout=3000)
    if p.returncode != 0:
        raise vlib.Inconclusive("encdump failed: " + p.stderr[-500:])
    evs = vlib.read_ndjson(out)
    os.remove(out)
    os.remove(inp)
    evs.sort(key=lambda e: e["hln"])
    n = 12
    shards = [evs[i::n] for i in range(n)]
    acc, bad, st, tr, extras = vlib.validate_traces(chk.work, "TraceEnc", "TraceEnc.cfg", shards, heap="4g", timeout=6000, par=n, want_extra=True)
    chk.cov["states"] += st
    chk.cov["transitions"] += tr
    wrong = [b["event"] for b in bad if b["why"] == "hl-wrong"]
    drift = [b["event"] for b in bad if b["why"] == "drift"]
    sample = drift if len(drift) <= drift_cap else rng.sample(drift, drift_cap)
    cov["aztec_selection"] = dict(choices_compared=len(evs), identical_to_model=sum(x.get("same", 0) for x in extras), drift=len(drift), drift_revalidated_through_reader=len(sample),
                                  stream_not_decodable=len(wrong), percentages=pcts, payloads=len(jobs))
    result = [dict(content=e["content"], p=e["p"]) for e in wrong[:60] + sample]
    try:
        os.makedirs(os.path.dirname(cpath), exist_ok=True)
        old = sorted((os.path.join(os.path.dirname(cpath), f) for f in os.listdir(os.path.dirname(cpath))), key=os.path.getmtime)
        for f in old[:-30]:
            os.remove(f)
        tmp = cpath + ".%d" % os.getpid()
        json.dump(dict(cov=cov["aztec_selection"], events=result), open(tmp, "w"))
        os.replace(tmp, cpath)
    except OSError:
        pass
    return result


def _tree_key(quick):
    h = hashlib.sha256()
    roots = [vlib.REPO, os.path.join(vlib.VERIF, "harness"), os.path.join(vlib.VERIF, "spec")]
    for root in roots:
        for dp, dn, fn in sorted(os.walk(root)):
            dn[:] = sorted(d for d in dn if d != ".git")
            for f in sorted(fn):
                if f.endswith((".go", ".tla", ".cfg", ".mod", ".sum")):
                    h.update(os.path.relpath(os.path.join(dp, f), root).encode())
                    h.update(open(os.path.join(dp, f), "rb").read())
    h.update(open(os.path.abspath(__file__), "rb").read())
    h.update(("%d %s" % (vlib.seed(), quick)).encode())
    return h.hexdigest()[:24]
