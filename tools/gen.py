"""Job generators shared by the checks (inputs only; no expectations live here)."""

def B(s):
    return list(s.encode("latin-1")) if isinstance(s, str) else list(s)

def enc(sym, content, p=(), api="Encode", scheme=None, hid=0, proj="full", hist=0, tag=""):
    j = dict(op="encode", sym=sym, api=api, content=B(content), p=list(p), hid=hid, proj=proj, hist=hist)
    if scheme is not None:
        j["scheme"] = scheme
    if tag:
        j["tag"] = tag
    return j

def ean_check(d):
    s = 0
    for i, c in enumerate(reversed(d)):
        s += int(c) * (3 if i % 2 == 0 else 1)
    return str((10 - s % 10) % 10)

# one representative accepted input per family / API shape
SAMPLES = [
    ("qr", "HELLO WORLD", (1, 0)), ("dm", "Hello 123456", ()), ("aztec", "Aztec code", (33, 0)), ("pdf", "PDF417 sample", (2,)),
    ("c128", "Code128\x01ab12", ()), ("c39", "CODE39", (1, 0)), ("c93", "CODE93", (1, 0)), ("codabar", "A12345B", ()),
    ("ean", "5901234123457", ()), ("ean", "96385074", ()), ("25", "123456", (1,)), ("25", "12345", (0,)),
]

SCHEMES = [
    dict(name="s8"), dict(name="s16"), dict(name="s24"),
    dict(model="rgba", fg=dict(t="rgba", v=[200, 0, 0, 255]), bg=dict(t="rgba", v=[1, 2, 3, 255])),
    dict(model="nrgba", fg=dict(t="nrgba", v=[0, 0, 255, 128]), bg=dict(t="nrgba", v=[255, 255, 0, 64])),
    dict(model="cmyk", fg=dict(t="cmyk", v=[0, 0, 0, 255]), bg=dict(t="cmyk", v=[0, 0, 0, 0])),
    dict(model="gray", fg=dict(t="gray", v=[255]), bg=dict(t="gray", v=[0])),           # inverted
    dict(model="gray16", fg=dict(t="rgba", v=[9, 8, 7, 255]), bg=dict(t="nrgba", v=[250, 251, 252, 255])),  # model differs from colour types
]


# strings that have a special meaning in one symbology or another (ISO 15434 envelopes / DataMatrix macros, symbology identifiers, GS1 separators and
# application identifiers, ECI escapes, structured append): an encoder that starts to "understand" one of them must still reproduce every content
MAGIC = [b"[)>\x1e05\x1d", b"[)>\x1e06\x1d", b"\x1e\x04", b"[)>\x1e05\x1dABC\x1e\x04", b"[)>\x1e06\x1d12345\x1e\x04", b"[)>\x1e05\x1dno trailer", b"[)>\x1e07\x1dX\x1e\x04",
         b"]d2", b"]Q3", b"]C1", b"]z3", b"\x1d", b"\x1c\x1d\x1e\x1f", b"(01)09501101530003(17)250101", b"010950110153000317250101",
         b"\\000026", b"\\000003", b"\\\\", b"\x1b", b"\xef\xbb\xbf", b"\xff\xfe", b"\x00", b"\x00\x00\x00",
         # characters that Unicode classifies like ASCII ones (unicode.IsDigit / IsUpper / IsSpace ...) but that are not
         "\u0661\u0662\u0663".encode(), "abcd\u0661".encode(), "12345\u0663\u0664".encode(), "\uff11\uff12\uff13".encode(), "A\uff21B".encode(),
         "x\u00b2 \u00bd".encode(), "\u00a0\u2003 ".encode(), "\u0391\u0392".encode(), "\u0967\u0968\u0969abcd".encode()]


def magic_contents(rng, n_plain=3):
    """MAGIC alone, and as prefix / suffix / infix of ordinary text and digits"""
    out = []
    for m in MAGIC:
        out.append(m)
        out.append(m + b"Hello 123")
        out.append(b"abc" + m)
        out.append(b"12" + m + b"34 xyz")
    return out
