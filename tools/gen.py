"""Job generators shared by the checks (inputs only; no expectations live here)."""

def B(s):
    return list(s.encode("latin-1")) if isinstance(s, str) else list(s)

def enc(sym, content, p=(), api="Encode", scheme=None, hid=0, proj="full", hist=0, tag=""):
    j = dict(op="encode", sym=sym, api=api, content=B(content), p=list(p), hid=hid, proj=proj, hist=hist)
    if scheme is not None:
        j["scheme"] = scheme
    if tag:
        j["tag"] = tag
    return j

def ean_check(d):
    s = 0
    for i, c in enumerate(reversed(d)):
        s += int(c) * (3 if i % 2 == 0 else 1)
    return str((10 - s % 10) % 10)

# one representative accepted input per family / API shape
SAMPLES = [
    ("qr", "HELLO WORLD", (1, 0)), ("dm", "Hello 123456", ()), ("aztec", "Aztec code", (33, 0)), ("pdf", "PDF417 sample", (2,)),
    ("c128", "Code128\x01ab12", ()), ("c39", "CODE39", (1, 0)), ("c93", "CODE93", (1, 0)), ("codabar", "A12345B", ()),
    ("ean", "5901234123457", ()), ("ean", "96385074", ()), ("25", "123456", (1,)), ("25", "12345", (0,)),
]

SCHEMES = [
    dict(name="s8"), dict(name="s16"), dict(name="s24"),
    dict(model="rgba", fg=dict(t="rgba", v=[200, 0, 0, 255]), bg=dict(t="rgba", v=[1, 2, 3, 255])),
    dict(model="nrgba", fg=dict(t="nrgba", v=[0, 0, 255, 128]), bg=dict(t="nrgba", v=[255, 255, 0, 64])),
    dict(model="cmyk", fg=dict(t="cmyk", v=[0, 0, 0, 255]), bg=dict(t="cmyk", v=[0, 0, 0, 0])),
    dict(model="gray", fg=dict(t="gray", v=[255]), bg=dict(t="gray", v=[0])),           # inverted
    dict(model="gray16", fg=dict(t="rgba", v=[9, 8, 7, 255]), bg=dict(t="nrgba", v=[250, 251, 252, 255])),  # model differs from colour types
]
