"""Common machinery for the /verif checks: scratch dirs, harness build, TLC runs, trace validation,
verdicts (violation / known finding / inconclusive) and evidence files."""
import atexit, json, os, random, re, shutil, subprocess, sys, tempfile, time, hashlib
from concurrent.futures import ThreadPoolExecutor

VERIF = os.path.dirname(os.path.dirname(os.path.abspath(__file__)))
REPO = os.environ.get("VERIF_REPO", "/repo")
SPEC = os.path.join(VERIF, "spec")
TLAJARS = "/opt/veriftools/tla/tla2tools.jar:/opt/veriftools/tla/CommunityModules-deps.jar"
GOENV = dict(GOFLAGS="-mod=mod", GOPROXY="off", GOSUMDB="off", GOTOOLCHAIN="local")
NCPU = os.cpu_count() or 4


class Inconclusive(Exception):
    pass


def seed():
    try:
        return int(os.environ.get("VERIF_SEED", "1"))
    except ValueError:
        return 1


_scratch_dirs = []


def scratch(prefix="verif-"):
    base = os.environ.get("VERIF_SCRATCH", tempfile.gettempdir())
    d = tempfile.mkdtemp(prefix=prefix, dir=base)
    _scratch_dirs.append(d)
    return d


def _cleanup():
    if os.environ.get("VERIF_KEEP"):
        return
    for d in _scratch_dirs:
        shutil.rmtree(d, ignore_errors=True)


atexit.register(_cleanup)


def log(*a):
    print(*a, file=sys.stderr, flush=True)


# ---------------------------------------------------------------------------------------------
# harness

def build_harness(work, race=False, tags="verif", cmd="drive", suffix=""):
    """Build harness/cmd/<cmd> against REPO's current working tree. Returns the binary path."""
    h = os.path.join(work, "harness-src")
    if not os.path.isdir(h):
        shutil.copytree(os.path.join(VERIF, "harness"), h)
        gm = open(os.path.join(h, "go.mod")).read()
        gm = re.sub(r"=> /repo\b", "=> " + REPO, gm)
        open(os.path.join(h, "go.mod"), "w").write(gm)
        if os.path.exists(os.path.join(REPO, "go.sum")):
            shutil.copy(os.path.join(REPO, "go.sum"), os.path.join(h, "go.sum"))
    out = os.path.join(work, cmd + suffix + ("-race" if race else ""))
    env = dict(os.environ, **GOENV)
    args = ["go", "build", "-tags", tags, "-o", out]
    if race:
        args.append("-race")
    args.append("./cmd/" + cmd)
    p = subprocess.run(args, cwd=h, env=env, capture_output=True, text=True)
    if p.returncode != 0:
        raise Inconclusive("harness build failed:\n" + p.stdout + p.stderr)
    return out


def write_ndjson(path, recs):
    with open(path, "w") as f:
        for r in recs:
            f.write(json.dumps(r, separators=(",", ":")))
            f.write("\n")


def read_ndjson(path):
    out = []
    with open(path) as f:
        for line in f:
            line = line.strip()
            if line:
                out.append(json.loads(line))
    return out


def run_drive(binary, jobs, work, name="ev", timeout=1800, deadline=30, env=None):
    """Run the driver on a job list; returns the list of events."""
    jp = os.path.join(work, name + ".jobs.ndjson")
    ep = os.path.join(work, name + ".events.ndjson")
    write_ndjson(jp, jobs)
    e = dict(os.environ)
    if env:
        e.update(env)
    try:
        p = subprocess.run([binary, "-in", jp, "-out", ep, "-deadline", str(deadline)], capture_output=True, text=True,
                           timeout=timeout, env=e)
    except subprocess.TimeoutExpired:
        raise Inconclusive("driver timed out")
    if p.returncode != 0:
        err = p.stderr or ""
        if ("panic:" in err or "fatal error:" in err) and "goroutine" in err:
            # The process died inside the code under test (a panic in a goroutine the library started cannot be recovered by the caller).
            # Run again, flushing after every event: the call that was in progress is the first job without an event; it gets the outcome "panic".
            try:
                subprocess.run([binary, "-in", jp, "-out", ep, "-deadline", str(deadline), "-flush"], capture_output=True, text=True, timeout=timeout, env=e)
            except subprocess.TimeoutExpired:
                raise Inconclusive("driver timed out")
            evs = read_ndjson(ep)
            if len(evs) < len(jobs):
                k = len(evs)
                first = next((l for l in err.splitlines() if l.startswith(("panic:", "fatal error:"))), "process died")
                evs.append(dict(jobs[k], i=k + 1, res=dict(kind="panic", msg=("process died: " + first)[:200], died=True)))
                return evs
        raise Inconclusive("driver failed rc=%d: %s" % (p.returncode, err[-2000:]))
    evs = read_ndjson(ep)
    if len(evs) != len(jobs):
        raise Inconclusive("driver produced %d events for %d jobs" % (len(evs), len(jobs)))
    return evs


# ---------------------------------------------------------------------------------------------
# TLC

def spec_files():
    fs = []
    for root, _, files in os.walk(SPEC):
        for f in files:
            if f.endswith(".tla") or f.endswith(".cfg"):
                fs.append(os.path.join(root, f))
    return fs


def stage_specs(d):
    os.makedirs(d, exist_ok=True)
    for f in spec_files():
        shutil.copy(f, os.path.join(d, os.path.basename(f)))
    return d


class TLCResult:
    def __init__(self, rc, out, wall):
        self.rc, self.out, self.wall = rc, out, wall
        m = re.findall(r"(\d[\d,]*) states generated, (\d[\d,]*) distinct states found", out)
        self.generated = int(m[-1][0].replace(",", "")) if m else 0
        self.distinct = int(m[-1][1].replace(",", "")) if m else 0
        self.finished = "Model checking completed. No error has been found." in out or "Finished in" in out and rc == 0
        self.violation = None
        m = re.search(r"Error: Invariant (\S+) is violated", out)
        if m:
            self.violation = m.group(1)
        m = re.search(r"Error: Action property (\S+) is violated", out)
        if m:
            self.violation = m.group(1)
        m = re.search(r"Temporal propert(y|ies) (\S+ )?w(as|ere) violated", out)
        if m:
            self.violation = self.violation or "temporal"
        if "Deadlock reached" in out:
            self.violation = self.violation or "deadlock"
        self.error = None
        if rc != 0 and not self.violation:
            m = re.search(r"Error: (.*)", out)
            self.error = m.group(1) if m else "rc=%d" % rc

    @property
    def ok(self):
        return self.rc == 0 and not self.violation and not self.error


def tlc(workdir, module, cfg=None, workers=4, heap="3g", timeout=900, extra=(), simulate=None, depth=None, seedv=None,
        deadlock=None, jvm=()):
    """Run TLC in workdir (specs staged there). Returns TLCResult."""
    meta = tempfile.mkdtemp(prefix="meta-", dir=workdir)
    cmd = ["java", "-XX:+UseParallelGC", "-XX:ParallelGCThreads=2", "-Xss512m", "-Xmx" + heap] + list(jvm) + \
          ["-Djava.io.tmpdir=" + meta, "-cp", TLAJARS, "tlc2.TLC", "-metadir", meta, "-workers", str(workers)]
    if cfg:
        cmd += ["-config", cfg]
    if simulate:
        cmd += ["-simulate", simulate]
    if depth:
        cmd += ["-depth", str(depth)]
    if seedv is not None:
        cmd += ["-seed", str(seedv)]
    if deadlock is False:
        cmd += ["-deadlock"]
    cmd += list(extra) + [module]
    t0 = time.time()
    try:
        p = subprocess.run(cmd, cwd=workdir, capture_output=True, text=True, timeout=timeout)
        out, rc = p.stdout + p.stderr, p.returncode
    except subprocess.TimeoutExpired as e:
        out = (e.stdout.decode() if isinstance(e.stdout, bytes) else (e.stdout or "")) + "\nTIMEOUT"
        rc = 124
    shutil.rmtree(meta, ignore_errors=True)
    return TLCResult(rc, out, time.time() - t0)


def apalache(work, relpath, inv="Inv", timeout=300):
    """Checks --length=0 --inv=<inv> of an integer-only lemma module with Apalache. Returns "proved" / "timeout" / "not-run: ...";
    a lemma that is REFUTED is a specification error (Inconclusive), never a verdict about the code."""
    d = tempfile.mkdtemp(prefix="apalache-", dir=work)
    shutil.copy(os.path.join(SPEC, relpath), d)
    mod = os.path.basename(relpath)
    try:
        p = subprocess.run(["apalache-mc", "check", "--length=0", "--inv=" + inv, "--out-dir=" + os.path.join(d, "out"), mod], cwd=d,
                           capture_output=True, text=True, timeout=timeout, env=dict(os.environ, JVM_ARGS="-Xmx2g -Djava.io.tmpdir=" + d))
    except subprocess.TimeoutExpired:
        return "timeout"
    finally:
        pass
    if "The outcome is: NoError" in p.stdout:
        shutil.rmtree(d, ignore_errors=True)
        return "proved"
    if "Error" in p.stdout and "violat" in p.stdout:
        raise Inconclusive("spec error: lemma %s does not hold\n%s" % (mod, p.stdout[-2000:]))
    return "not-run: " + (p.stdout + p.stderr)[-200:].replace("\n", " ")


def model_check(work, runs):
    """runs: list of dict(module, cfg, workers, timeout, expect_violation(optional)). Runs them in parallel.
    Returns (states, transitions, details). A failing model run is a spec error -> Inconclusive."""
    d = stage_specs(os.path.join(work, "mc"))

    def one(r):
        sub = os.path.join(d, "run-" + r["cfg"].replace(".cfg", ""))
        os.makedirs(sub, exist_ok=True)
        for f in os.listdir(d):
            if f.endswith(".tla") or f.endswith(".cfg"):
                shutil.copy(os.path.join(d, f), sub)
        res = tlc(sub, r["module"], r["cfg"], workers=r.get("workers", 4), heap=r.get("heap", "4g"),
                  timeout=r.get("timeout", 900), extra=r.get("extra", ()))
        return r, res

    with ThreadPoolExecutor(max_workers=max(1, min(len(runs), 4))) as ex:
        results = list(ex.map(one, runs))
    states = trans = 0
    details = []
    for r, res in results:
        exp = r.get("expect_violation")
        if exp:
            if res.violation != exp:
                raise Inconclusive("spec error: negative model %s/%s should violate %s but gave %s\n%s" %
                                   (r["module"], r["cfg"], exp, res.violation, res.out[-1500:]))
        elif not res.ok:
            raise Inconclusive("spec error: model %s/%s failed (%s)\n%s" %
                               (r["module"], r["cfg"], res.violation or res.error, res.out[-3000:]))
        states += res.distinct
        trans += res.generated
        details.append(dict(module=r["module"], cfg=r["cfg"], distinct=res.distinct, generated=res.generated,
                            wall_s=round(res.wall, 1), negative=bool(exp)))
    return states, trans, details


def validate_traces(work, module, cfg, shards, heap="3g", timeout=1800, par=None, consts=None, want_extra=False):
    """Each shard (list of events) is written as trace.ndjson in its own dir and validated by the monitor-style
    trace spec `module`. Returns (accepted_count, bad_list, tlc_states, tlc_trans) where bad entries are dicts
    {shard, l, why, event}."""
    base = stage_specs(os.path.join(work, "tv-" + module))
    par = par or max(1, min(len(shards), NCPU // 2))

    def one(idx):
        evs = shards[idx]
        sub = os.path.join(base, "shard%d" % idx)
        os.makedirs(sub, exist_ok=True)
        for f in os.listdir(base):
            if f.endswith(".tla") or f.endswith(".cfg"):
                shutil.copy(os.path.join(base, f), sub)
        write_ndjson(os.path.join(sub, "trace.ndjson"), evs)
        res = tlc(sub, module + ".tla", cfg, workers=1, heap=heap, timeout=timeout)
        vp = os.path.join(sub, "verdict.json")
        if not os.path.exists(vp):
            raise Inconclusive("trace validation produced no verdict (%s shard %d rc=%d)\n%s" %
                               (module, idx, res.rc, res.out[-3000:]))
        v = json.load(open(vp))
        if isinstance(v, list):
            v = v[0]
        if v["n"] != len(evs):
            raise Inconclusive("trace spec consumed %d of %d events" % (v["n"], len(evs)))
        bad = []
        for b in v["bad"]:
            bad.append(dict(shard=idx, l=b["l"], why=b["why"], event=evs[b["l"] - 1]))
        shutil.rmtree(sub, ignore_errors=True)
        extra = {k: x for k, x in v.items() if k not in ("n", "bad")}
        return len(evs) - len({b["l"] for b in bad}), bad, res.distinct, res.generated, extra

    acc, bad, st, tr = 0, [], 0, 0
    extras = []
    with ThreadPoolExecutor(max_workers=par) as ex:
        for a, b, s, t, x in ex.map(one, range(len(shards))):
            acc += a
            bad += b
            st += s
            tr += t
            extras.append(x)
    if want_extra:
        return acc, bad, st, tr, extras
    return acc, bad, st, tr


def _weight(e):
    r = e.get("res", {})
    return 50 + (r.get("w", 0) * r.get("hh", 0) if ("px" in r or "pxdigest" in r) else 0) + 3 * len(e.get("content") or []) + len(e.get("a") or []) + len(e.get("b") or []) + 40 * len(r.get("app") or [])


def shard(events, n, key=None):
    """Split events into at most n shards of balanced cost (pixel count); events with the same key(ev) stay together
    and in order. Without a key every event is its own group (order inside a shard follows the original order)."""
    if not events:
        return []
    n = max(1, min(n, len(events)))
    groups = {}
    for idx, e in enumerate(events):
        groups.setdefault(key(e) if key else idx, []).append((idx, e))
    shards = [[] for _ in range(n)]
    load = [0] * n
    for g in sorted(groups.values(), key=lambda g: -sum(_weight(e) for _, e in g)):
        k = load.index(min(load))
        shards[k].extend(g)
        load[k] += sum(_weight(e) for _, e in g)
    return [[e for _, e in sorted(s, key=lambda t: t[0])] for s in shards if s]


# ---------------------------------------------------------------------------------------------
# findings / verdict / evidence

def load_findings():
    p = os.path.join(VERIF, "known_findings.json")
    if not os.path.exists(p):
        return []
    return json.load(open(p))["findings"]


class Check:
    def __init__(self, prop, tier):
        self.prop, self.tier = prop, tier
        self.t0 = time.time()
        self.work = scratch("verif-%s-" % prop)
        self.cov = dict(states=0, transitions=0, traces_validated_against_impl=0, samples=[])
        self.assumptions = []
        self.violations = []   # dicts: key, what, replay
        self.known_hit = {}
        self.findings = [f for f in load_findings() if f["property"] == prop]
        self.rng = random.Random(seed() * 1000003 + int(prop[1:]))

    def add_model(self, runs):
        s, t, det = model_check(self.work, runs)
        self.cov["states"] += s
        self.cov["transitions"] += t
        self.cov.setdefault("model_runs", []).extend(det)

    def sample(self, x):
        if len(self.cov["samples"]) < 8:
            self.cov["samples"].append(x)

    def match_known(self, key):
        for f in self.findings:
            if f.get("status") == "known" and re.fullmatch(f["key"], key):
                return f
        return None

    def report(self, key, what, replay_obj):
        """A reproduced disagreement between the real code and the specification."""
        f = self.match_known(key)
        if f:
            self.known_hit.setdefault(f["key"], [f, 0])[1] += 1
            return
        os.makedirs(os.path.join(VERIF, "replays"), exist_ok=True)
        h = hashlib.sha1(json.dumps(replay_obj, sort_keys=True).encode()).hexdigest()[:12]
        path = os.path.join(VERIF, "replays", "%s-%s.json" % (self.prop, h))
        json.dump(dict(property=self.prop, key=key, what=what, replay=replay_obj), open(path, "w"), indent=1)
        self.violations.append(dict(key=key, what=what, replay=path))

    def finish(self, level="model_checking", extra=None):
        cov = dict(self.cov)
        if extra:
            cov.update(extra)
        if not cov["samples"]:
            cov["samples"] = ["(no samples recorded)"]
        cov["known_findings_hit"] = {k: v[1] for k, v in self.known_hit.items()}
        ev = dict(property_id=self.prop, tier=self.tier, seed=seed(), level=level, coverage=cov,
                  assumptions=self.assumptions, wall_s=round(time.time() - self.t0, 2),
                  violations=len(self.violations))
        os.makedirs(os.path.join(VERIF, "evidence"), exist_ok=True)
        json.dump(ev, open(os.path.join(VERIF, "evidence", self.prop + ".json"), "w"), indent=1)
        for k, (f, n) in sorted(self.known_hit.items()):
            print("KNOWN-FINDING: property=%s %s (%d occurrences this run)" % (self.prop, f["what"], n))
        seen = set()
        for v in self.violations:
            if v["key"] in seen:
                continue
            seen.add(v["key"])
            if len(seen) <= 20:
                print("VIOLATION property=%s replay=%s  # %s" % (self.prop, v["replay"], v["what"]))
        if self.violations:
            return 1
        print("OK property=%s tier=%s states=%d traces=%d wall=%.0fs" % (
            self.prop, self.tier, cov["states"], cov["traces_validated_against_impl"], time.time() - self.t0))
        return 0
