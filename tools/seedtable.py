#!/usr/bin/env python3
"""Prints the table of DESIGN.md 12.6 from seeded/*/meta.json."""
import json, glob, os
V = os.path.dirname(os.path.dirname(os.path.abspath(__file__)))
print("| seeded change | property | what it is | what it needs to manifest | detected by (quick tier) | also run, not detecting |")
print("|---|---|---|---|---|---|")
for d in sorted(glob.glob(os.path.join(V, "seeded", "*"))):
    m = json.load(open(os.path.join(d, "meta.json")))
    c = m["confirmed_by_me"]
    f = lambda s: " ".join(str(s).split())[:170].replace("|", "/")
    print("| %s | %s | %s | %s | %s | %s |" % (os.path.basename(d), m["breaks_property"], f(m["summary"]), f(m["needs"]),
          ", ".join(c["detected_by"]) or "**MISSED**", ", ".join(k for k, v in c["checks"].items() if v["exit"] != 1)))
