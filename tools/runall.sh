#!/bin/sh
# Runs every check's quick (or given) tier once, sequentially, on /repo's working tree; prints one line per check.
# Usage: tools/runall.sh [quick|thorough]   (VERIF_SEED is honoured)
cd "$(dirname "$0")/.."
tier=${1:-quick}
rc=0
for c in C01 C02 C03 C04 C05 C06 C07 C08 C09 C10 C11 C12 C13 C14 C15 C16 C17 C18; do
  out=$(bin/check $c --tier "$tier" 2>&1); r=$?
  echo "$out" | grep -E '^(OK|VIOLATION|INCONCLUSIVE|KNOWN-FINDING)' | cut -c1-240
  [ $r -ne 0 ] && rc=$r
done
exit $rc
