#!/bin/sh
# MANIFEST.setup_cmd: offline sanity of the tool chain. Builds nothing a check reuses: every check rebuilds the
# harness from /repo's current working tree.
set -e
cd "$(dirname "$0")/.."
export GOFLAGS=-mod=mod GOPROXY=off GOSUMDB=off GOTOOLCHAIN=local
command -v java >/dev/null
command -v go >/dev/null
test -f /opt/veriftools/tla/tla2tools.jar
T=$(mktemp -d)
trap 'rm -rf "$T"' EXIT
find spec -name '*.tla' -exec cp {} "$T"/ \;
fail=0
for f in "$T"/*.tla; do
  if ! (cd "$T" && java -Djava.io.tmpdir="$T" -cp /opt/veriftools/tla/tla2tools.jar:/opt/veriftools/tla/CommunityModules-deps.jar tla2sany.SANY "$(basename "$f")" >"$T/sany.out" 2>&1); then
    echo "SANY failed: $f"; tail -n 20 "$T/sany.out"; fail=1
  fi
done
cp -r harness "$T/h" && (cd "$T/h" && go vet ./... )
mkdir -p evidence replays
exit $fail
