#!/usr/bin/env python3
"""tools/benigntest.py <name> <worktree> <diff> [--checks C09,C14] [--tier quick] [--note text]
False-alarm regression: a property-PRESERVING change (refactoring, different-but-valid encoding choice, other growth / caching policy ...)
produced by an independent sub-agent is applied in a scratch worktree outside /repo and /verif; it must build, pass the repository's
tests, and every check run against it (VERIF_REPO) must exit 0 without a VIOLATION line.
Keeps the change as /verif/benign/<name>/ (patch.diff, meta.json with what was run and the results)."""
import argparse, json, os, shutil, subprocess, sys
V = os.path.dirname(os.path.dirname(os.path.abspath(__file__)))
ENV = dict(os.environ, GOFLAGS="-mod=mod", GOPROXY="off", GOSUMDB="off", GOTOOLCHAIN="local")
ALL = ["C%02d" % i for i in range(1, 19)]


def sh(cmd, cwd=None, env=None, timeout=7200):
    p = subprocess.run(cmd, shell=True, cwd=cwd, env=env or ENV, capture_output=True, text=True, timeout=timeout)
    return p.returncode, (p.stdout + p.stderr)


def main():
    ap = argparse.ArgumentParser()
    ap.add_argument("name")
    ap.add_argument("worktree")
    ap.add_argument("diff")
    ap.add_argument("--checks", default="")
    ap.add_argument("--tier", default="quick")
    ap.add_argument("--note", default="")
    a = ap.parse_args()
    wt = a.worktree
    out = os.path.join(V, "benign", a.name)
    os.makedirs(out, exist_ok=True)
    if os.path.abspath(a.diff) != os.path.join(out, "patch.diff"):
        shutil.copy(a.diff, os.path.join(out, "patch.diff"))
    log = dict(name=a.name, note=a.note, tier=a.tier)
    sh("git checkout -- . && git clean -fdq -e 'benign-*.diff'", cwd=wt)
    rc, o = sh("git apply %s" % os.path.join(out, "patch.diff"), cwd=wt)
    if rc != 0:
        print("patch does not apply:", o)
        sys.exit(2)
    rc, o = sh("go build ./... && go build -tags verif ./...", cwd=wt)
    log["build_with_patch"] = "ok" if rc == 0 else "FAIL " + o[-400:]
    rc, o = sh("go test -vet=off -count=1 ./...", cwd=wt)
    log["repo_tests_with_patch"] = "pass" if rc == 0 else "FAIL " + o[-400:]
    res = {}
    for c in (a.checks.split(",") if a.checks else ALL):
        rc, o = sh("%s/bin/check %s --tier %s" % (V, c, a.tier), cwd=V, env=dict(ENV, VERIF_REPO=wt))
        lines = [l for l in o.splitlines() if l.startswith(("VIOLATION", "INCONCLUSIVE", "OK ", "KNOWN-FINDING"))]
        res[c] = dict(exit=rc, lines=[l[:400] for l in lines[:6]])
    sh("git checkout -- . && git clean -fdq -e 'benign-*.diff'", cwd=wt)
    log["alarms"] = [c for c in res if res[c]["exit"] == 1 or any(l.startswith("VIOLATION") for l in res[c]["lines"])]
    log["inconclusive"] = [c for c in res if res[c]["exit"] not in (0, 1)]
    log["checks"] = res
    json.dump(log, open(os.path.join(out, "meta.json"), "w"), indent=1)
    print(json.dumps(log, indent=1))


if __name__ == "__main__":
    main()
