#!/usr/bin/env python3
"""tools/regress.py [--jobs N] [--only seeded|benign] [--match substr]
Regression over the two corpora with the checks as they are now:
  seeded/<name>/patch.diff  must be reported (exit 1 + VIOLATION) by the check of the property it was written against (meta: property / breaks_property),
  benign/<name>/patch.diff  must leave every check that was run on it at exit 0.
Each patch is applied in its own scratch worktree of /repo HEAD under /tmp (removed afterwards); checks run with VERIF_REPO=<worktree>.
Writes /verif/regress_report.json (what was run, per entry: check -> exit code and first verdict line)."""
import argparse, json, os, subprocess, sys, glob, time
from concurrent.futures import ThreadPoolExecutor
V = os.path.dirname(os.path.dirname(os.path.abspath(__file__)))
ENV = dict(os.environ, GOFLAGS="-mod=mod", GOPROXY="off", GOSUMDB="off", GOTOOLCHAIN="local")


def sh(cmd, cwd=None, env=None, timeout=7200):
    p = subprocess.run(cmd, shell=True, cwd=cwd, env=env or ENV, capture_output=True, text=True, timeout=timeout)
    return p.returncode, p.stdout + p.stderr


def one(args):
    kind, d, k = args
    name = os.path.basename(d)
    meta = json.load(open(os.path.join(d, "meta.json")))
    wt = "/tmp/wt-reg-%d-%d" % (os.getpid(), k)
    sh("git -C /repo worktree remove --force %s" % wt)
    rc, o = sh("git -C /repo worktree add -q --detach %s HEAD" % wt)
    if rc != 0:
        return name, dict(kind=kind, error="worktree: " + o[-300:])
    res = dict(kind=kind)
    try:
        rc, o = sh("git apply %s" % os.path.join(d, "patch.diff"), cwd=wt)
        if rc != 0:
            res["error"] = "patch does not apply: " + o[-300:]
            return name, res
        if kind == "seeded":
            prop = meta.get("breaks_property") or meta.get("property") or name[:3]
            det = (meta.get("confirmed_by_me") or {}).get("detected_by") or [prop]
            checks = [prop] if prop in det else det[:1]
        else:
            checks = list(meta["checks"].keys())
        res["checks"] = {}
        for c in checks:
            rc, o = sh("%s/bin/check %s --tier quick" % (V, c), cwd=V, env=dict(ENV, VERIF_REPO=wt))
            lines = [l for l in o.splitlines() if l.startswith(("VIOLATION", "INCONCLUSIVE", "OK ", "KNOWN-FINDING"))]
            res["checks"][c] = dict(exit=rc, line=(lines[0][:240] if lines else o[-200:]))
        if kind == "seeded":
            res["pass"] = any(v["exit"] == 1 for v in res["checks"].values())
        else:
            res["pass"] = all(v["exit"] == 0 for v in res["checks"].values())
    finally:
        sh("git -C /repo worktree remove --force %s" % wt)
    return name, res


def main():
    ap = argparse.ArgumentParser()
    ap.add_argument("--jobs", type=int, default=3)
    ap.add_argument("--only", default="")
    ap.add_argument("--match", default="")
    a = ap.parse_args()
    todo = []
    for kind in ("seeded", "benign"):
        if a.only and a.only != kind:
            continue
        for d in sorted(glob.glob(os.path.join(V, kind, "*"))):
            if os.path.exists(os.path.join(d, "patch.diff")) and a.match in d:
                todo.append((kind, d, len(todo)))
    t0 = time.time()
    report = {}
    rp = os.path.join(V, "regress_report.json")
    if os.path.exists(rp) and (a.match or a.only):
        report = json.load(open(rp)).get("entries", {})
    with ThreadPoolExecutor(max_workers=a.jobs) as ex:
        for name, res in ex.map(one, todo):
            report[name] = res
            print("%-44s %s %s" % (name, "pass" if res.get("pass") else "FAIL", json.dumps(res.get("checks") or res.get("error"))[:200]), flush=True)
            json.dump(dict(entries=report, note="written by tools/regress.py; evidence files are overwritten by these runs - regenerate them against /repo afterwards"),
                      open(rp, "w"), indent=1)
    bad = [n for n, r in report.items() if not r.get("pass")]
    print("entries=%d failed=%d wall=%ds %s" % (len(report), len(bad), time.time() - t0, bad))
    sys.exit(1 if bad else 0)


if __name__ == "__main__":
    main()
