"""C01 - QR Code: every accepted content decodes back to exactly that content.
model phase : placement walk state machine = closed form for all versions, data-module count = capacity formula (MC_QRWalk);
              BCH format/version words distinct with full minimum distance, block-table laws, capacity boundaries of all 480
              (version, level, mode) cells parse back through the segment automaton (MC_QRFormat)
trace valid.: every image is read by the reference reader of QR.tla (TraceQR): function patterns, format/version words, unmasking,
              zig-zag, de-interleaving, Reed-Solomon syndromes of every block, segment/terminator/pad automaton, bytes = content"""
import vlib, onedim, gen, encconf

ALNUM = "0123456789ABCDEFGHIJKLMNOPQRSTUVWXYZ $%*+-./:"
ECC = {0: [7, 10, 15, 20, 26, 18, 20, 24, 30, 18, 20, 24, 26, 30, 22, 24, 28, 30, 28, 28, 28, 28, 30, 30, 26, 28, 30, 30, 30, 30, 30, 30, 30, 30, 30, 30, 30, 30, 30, 30],
       1: [10, 16, 26, 18, 24, 16, 18, 22, 22, 26, 30, 22, 22, 24, 24, 28, 28, 26, 26, 26, 26, 28, 28, 28, 28, 28, 28, 28, 28, 28, 28, 28, 28, 28, 28, 28, 28, 28, 28, 28],
       2: [13, 22, 18, 26, 18, 24, 18, 22, 20, 24, 28, 26, 24, 20, 30, 24, 28, 28, 26, 30, 28, 30, 30, 30, 30, 28, 30, 30, 30, 30, 30, 30, 30, 30, 30, 30, 30, 30, 30, 30],
       3: [17, 28, 22, 16, 22, 28, 26, 26, 24, 28, 24, 28, 22, 24, 24, 30, 28, 28, 26, 28, 30, 24, 30, 30, 30, 30, 30, 30, 30, 30, 30, 30, 30, 30, 30, 30, 30, 30, 30, 30]}
NB = {0: [1, 1, 1, 1, 1, 2, 2, 2, 2, 4, 4, 4, 4, 4, 6, 6, 6, 6, 7, 8, 8, 9, 9, 10, 12, 12, 12, 13, 14, 15, 16, 17, 18, 19, 19, 20, 21, 22, 24, 25],
      1: [1, 1, 1, 2, 2, 4, 4, 4, 5, 5, 5, 8, 9, 9, 10, 10, 11, 13, 14, 16, 17, 17, 18, 20, 21, 23, 25, 26, 28, 29, 31, 33, 35, 37, 38, 40, 43, 45, 47, 49],
      2: [1, 1, 2, 2, 4, 4, 6, 6, 8, 8, 8, 10, 12, 16, 12, 17, 16, 18, 21, 20, 23, 23, 25, 27, 29, 34, 34, 35, 38, 40, 43, 45, 48, 51, 53, 56, 59, 62, 65, 68],
      3: [1, 1, 2, 4, 4, 4, 5, 6, 8, 8, 11, 11, 16, 16, 18, 16, 19, 21, 25, 25, 25, 34, 30, 32, 35, 37, 40, 42, 45, 48, 51, 54, 57, 60, 63, 66, 70, 74, 77, 81]}


def raw(v):
    r = (16 * v + 128) * v + 64
    if v >= 2:
        na = v // 7 + 2
        r -= (25 * na - 10) * na - 55
        if v >= 7:
            r -= 36
    return r


def cap(v, level, md):
    """largest character count that fits (inputs for the boundary generator; the verdict never uses it)"""
    databits = 8 * (raw(v) // 8 - NB[level][v - 1] * ECC[level][v - 1])
    c = 0 if v < 10 else (1 if v < 27 else 2)
    cc = {1: [10, 12, 14], 2: [9, 11, 13], 4: [8, 16, 16]}[md][c]
    avail = databits - 4 - cc
    if md == 1:
        n = avail // 10 * 3
        rem = avail % 10
        return n + (2 if rem >= 7 else 1 if rem >= 4 else 0)
    if md == 2:
        return avail // 11 * 2 + (1 if avail % 11 >= 6 else 0)
    return avail // 8


def filler(rng, md, n, kind):
    if md == 1:
        return "".join(rng.choice("0123456789") for _ in range(n)) if kind else "7" * n
    if md == 2:
        return "".join(rng.choice(ALNUM) for _ in range(n)) if kind else "Z" * n
    return bytes(rng.randrange(256) for _ in range(n)) if kind else b"\xa5" * n


def qr_jobs(rng, quick):
    jobs = []

    def add(content, level, mode, **kw):
        jobs.append(gen.enc("qr", content if isinstance(content, (bytes, list)) else onedim.U(content), (level, mode), **kw))
    # quick: versions 1-8, the versions where the character-count field width changes (9|10, 26|27), 40, and seeded others
    versions = sorted(set(list(range(1, 9)) + [9, 10, 26, 27, 40] + rng.sample(range(11, 26), 2) + rng.sample(range(28, 40), 2))) if quick else list(range(1, 41))
    apimode = {1: 1, 2: 2, 4: 3}
    for v in versions:
        for level in range(4):
            for md in (1, 2, 4):
                if quick and v > 8 and (level + md) % 3 != v % 3:
                    continue
                c = cap(v, level, md)
                add(filler(rng, md, c, 1), level, apimode[md])                    # exactly full
                if v <= 8 or not quick:
                    add(filler(rng, md, c + 1, 0), level, apimode[md])            # lands in the next version or is rejected
                if v <= 4 or not quick:
                    add(filler(rng, md, max(0, c - rng.randint(1, 5)), 1), level, 0)   # Auto, below the boundary
    if quick:
        # every one of the 160 (version, level) cells once at exact capacity (block table, version info, alignment grid of every version);
        # the segment mode rotates with the seed
        rot = rng.randrange(3)
        for v in range(1, 41):
            for level in range(4):
                md = (1, 2, 4)[(v + level + rot) % 3]
                add(filler(rng, md, cap(v, level, md), 1), level, apimode[md])
    # small sizes: every residue and every alphabet member
    for n in range(0, 12):
        add(filler(rng, 1, n, 1), rng.randrange(4), 1)
        add(filler(rng, 2, n, 1), rng.randrange(4), 2)
        add(filler(rng, 4, n, 1), rng.randrange(4), 3)
        add(filler(rng, 1, n, 1), rng.randrange(4), 0)
    for ch in ALNUM:
        add(ch + "A", 1, 2)
        add("A" + ch, 1, 2)
        add(ch, 0, 0)
    for c in gen.magic_contents(rng):
        add(c, rng.randrange(4), rng.choice([0, 3]))
    add(bytes(range(256)), 1, 3)
    add(bytes(range(255, -1, -1)), 3, 0)
    for b in range(0, 256, 5 if quick else 1):
        add(bytes([b]), 2, 3)
    add(b"\xff\xfe\xc3", 0, 3)
    add(b"\xc3\x28", 0, 0)
    add("", 0, 0)
    add("", 3, 3)
    add("", 1, 1)
    add("", 2, 2)
    # Auto on digit / alphanumeric / mixed / sign-bearing content
    for s in ["0123456789", "00000", "ABC123", "abc123", "HELLO WORLD", "hello world", "12A", "1 2", "+12", "-0", "+1", "1+1", "12-", "१२३", "1_000", "0x10", "1e3", " 12", "12 "]:
        for mode in (0, 1, 2, 3):
            add(s, rng.randrange(4), mode)
    for _ in range(60 if quick else 2500):
        level, mode = rng.randrange(4), rng.randrange(4)
        n = rng.randint(0, rng.choice([3, 10, 30, 80, 200, 500] + ([] if quick else [1200, 2900, 4200, 7000])))
        if mode == 1:
            c = filler(rng, 1, n, 1)
        elif mode == 2:
            c = filler(rng, 2, n, 1)
        elif mode == 3:
            c = filler(rng, 4, n, 1)
        else:
            c = "".join(rng.choice(["0123456789", ALNUM, "abc xyz09AZ!é"][rng.randrange(3)]) for _ in range(n))
        add(c, level, mode)
    return jobs


def wanted(ev, tag):
    return ev.get("sym") == "qr" and onedim.is_roundtrip(tag)


def qr_cov(chk, evs, extras):
    seen = set()
    for x in extras:
        for t in x.get("seen", []):
            seen.add((t[0], t[1], t[2], tuple(t[3])))
    chk.cov["versions_decoded"] = sorted({t[0] for t in seen})
    chk.cov["version_level_pairs_decoded"] = len({(t[0], t[1]) for t in seen})
    chk.cov["masks_decoded"] = sorted({t[2] for t in seen})
    chk.cov["segment_modes_decoded"] = sorted({m for t in seen for m in t[3]})
    return seen


def run(tier):
    chk = vlib.Check("C01", tier)
    quick = tier == "quick"
    chk.add_model([dict(module="MC_QREnc.tla", cfg="MC_QREnc_quick.cfg" if quick else "MC_QREnc_thorough.cfg", workers=6, timeout=3000, heap="6g"),
                   dict(module="MC_QREnc.tla", cfg="MC_QREnc_nofix.cfg", workers=2, timeout=1000, expect_violation="RoundTrip"),
                   dict(module="MC_QRWalk.tla", cfg="MC_QRWalk_quick.cfg" if quick else "MC_QRWalk.cfg", workers=6, timeout=3000, heap="6g"),
                   dict(module="MC_QRFormat.tla", cfg="MC_QRFormat.cfg", workers=6, timeout=3000, heap="6g")])
    drive = vlib.build_harness(chk.work)
    jobs = qr_jobs(chk.rng, quick)
    # encoder-model conformance (tools/encconf.py): the real mode encoders / version choice / padding against QREnc over MC_QREnc's state space
    wrong, drift = encconf.conformance(chk, "qr", quick)
    for c in wrong + drift:
        jobs.append(gen.enc("qr", list(c["content"]), tuple(c["p"])))
    evs, extras = onedim.judge(chk, drive, jobs, "TraceQR", "TraceQR.cfg", 14 if quick else 16, wanted, heap="5g", timeout=6000)
    ok = [e for e in evs if e["res"]["kind"] == "ok"]
    chk.cov["symbols_decoded"] = len(ok)
    chk.cov["rejected_inputs"] = len(evs) - len(ok)
    chk.cov["modules_read"] = sum(e["res"]["w"] ** 2 for e in ok)
    seen = qr_cov(chk, evs, extras)
    ex = next(e for e in ok if e["res"]["w"] == 21 and len(e["content"]) > 3)
    chk.sample(dict(content=bytes(ex["content"]).decode("latin-1"), level=ex["p"][0], mode=ex["p"][1], rows=["".join(map(str, r)) for r in ex["res"]["px"]]))
    chk.cov["coverage_shortfall"] = len(chk.cov["masks_decoded"]) < 8
    chk.assumptions += ["QR error-correction table (check words per block, block count) and alignment centres written from ISO/IEC 18004; format/version words computed by BCH division",
                        "the mask choice (penalty rules) is not part of the property: any of the 8 masks named by the format word is accepted"]
    return chk.finish()


def replay(path):
    return onedim.replay_generic("C01", path, "TraceQR", "TraceQR.cfg", heap="5g")
