"""C04 - PDF417: every accepted text decodes back to exactly that text.
model phase : structural laws of the 3 x 929 pinned patterns, start/stop, GF(929) generator, compaction conversions, dimension obligations (MC_PDF417);
              encoder model (transcription of highlevelEncode / encodeText / encodeBinary / encodeNumeric) || compaction automaton for all strings over
              representative bytes (MC_PDFText), incl. the negative design (pad in punctuation sub-mode not tracked) that must violate RoundTrip
trace valid.: every image is read by the reference reader of PDF417.tla (TracePDF)"""
import vlib, onedim, gen, encconf

UP, LO, DG = "ABCDEFGHIJKLMNOPQRSTUVWXYZ", "abcdefghijklmnopqrstuvwxyz", "0123456789"
MIXED_ONLY = "&#+%=^"
MIX_PUNCT = "\r\t,:-.$/*"
PUNCT_ONLY = ";<>@[\\]_`~!\n\"|()?{}'"
CLS = dict(U=UP, L=LO, D=DG, S=" ", M=MIXED_ONLY, X=MIX_PUNCT, P=PUNCT_ONLY)


def pdf_jobs(rng, quick):
    jobs = []

    def add(c, level=None):
        jobs.append(gen.enc("pdf", c if isinstance(c, (bytes, list)) else list(c.encode("latin-1")), (rng.randrange(9) if level is None else level,)))
    add("", 0)
    add("", 8)
    for c in gen.magic_contents(rng):
        add(c)
    for b in range(0, 256, 4 if quick else 1):
        add(bytes([b]), rng.randrange(4))
        add(b"Hello " + bytes([b]) + b" world", rng.randrange(4))
    # text sub-mode transitions: all class strings of length 2..3 (padded to text runs of >= 5), odd and even lengths, followed by a shifted byte and more text
    import itertools
    combos = list(itertools.product(CLS, repeat=2)) + list(itertools.product(CLS, repeat=3))
    if quick:
        combos = list(itertools.product(CLS, repeat=2)) + rng.sample(list(itertools.product(CLS, repeat=3)), 120)
    for combo in combos:
        s = "".join(rng.choice(CLS[c]) for c in combo)
        fill = rng.choice(CLS[combo[-1]])
        for extra in (0, 1):
            t = s + fill * (5 - len(s) + extra)
            add(t, rng.randrange(3))
            add(t + "\x80" + rng.choice(["hello", "HELLO", ";;;;;", "12345", "a"]), rng.randrange(3))
    # digit runs around the 13-digit threshold and the 44-digit chunking
    for n in list(range(1, 16)) + [43, 44, 45, 46, 88, 89, 90] + ([] if quick else list(range(16, 43)) + [132, 133]):
        d = "".join(rng.choice(DG) for _ in range(n))
        add(d, rng.randrange(4))
        add("ab" + d + "cd", rng.randrange(4))
        if n in (12, 13, 14, 44, 45):
            add("0" * n)
            add(d + "\x80" + d)
    # numeric compaction is big-number arithmetic (base 900 <-> base 10, 44 digits per group): every group length with extreme digit values
    for n in range(1, 49 if quick else 135):
        add("9" * n, rng.randrange(3))
        add("".join(rng.choice("89") for _ in range(n)), rng.randrange(3))
        if n >= 2:
            add("1" + "0" * (n - 1), rng.randrange(3))
            add("0" * (n - 1) + "1", rng.randrange(3))
        if n >= 13:
            add("x" + "9" * n + "y", rng.randrange(3))
    # byte runs of every length mod 6, alone, after text, before text
    for n in range(1, 14 if quick else 26):
        run = bytes(rng.randrange(128, 256) for _ in range(n))
        add(run, rng.randrange(4))
        add(b"Hello" + run, rng.randrange(4))
        add(run + b"world", rng.randrange(4))
        add(b"abcde" + run + b"12345678901234" + run[:1] + b"x")
    add(bytes(range(256)), 4)
    add(bytes(range(255, -1, -1)) * 2, 2)
    # shapes: sizes swept through every level
    for level in range(9):
        for n in [1, 3, 10, 30, 80, 200, 500, 900, 1100, 1500] if quick else list(range(0, 1800, 37)):
            add("".join(rng.choice(UP + LO + " ") for _ in range(n)), level)
    # capacity boundary and beyond
    for n in [1700, 1800, 1850, 2000, 2700, 5000]:
        add("A" * n, 0)
        add(DG[0] * n, 0)
    add(bytes(rng.randrange(256) for _ in range(1100)), 0)
    add(bytes(rng.randrange(256) for _ in range(1200)), 0)
    for _ in range(60 if quick else 3000):
        n = rng.randint(0, rng.choice([6, 20, 60, 150] + ([] if quick else [500, 1200])))
        pools = [UP, LO, DG, " ", MIXED_ONLY + MIX_PUNCT, PUNCT_ONLY, bytes(range(128, 256)).decode("latin-1"), "\x00\x01\x7f"]
        s = ""
        while len(s) < n:
            s += "".join(rng.choice(rng.choice(pools)) for _ in range(rng.randint(1, 15)))
        add(s[:n])
    return jobs


def wanted(ev, tag):
    return ev.get("sym") == "pdf" and onedim.is_roundtrip(tag)


def pdf_cov(chk, extras):
    seen = set()
    for x in extras:
        for t in x.get("seen", []):
            seen.add(tuple(t))
    chk.cov["shapes_decoded"] = len({(t[0], t[1]) for t in seen})
    chk.cov["rows_range"] = [min(t[0] for t in seen), max(t[0] for t in seen)] if seen else []
    chk.cov["cols_range"] = [min(t[1] for t in seen), max(t[1] for t in seen)] if seen else []
    chk.cov["levels_decoded"] = sorted({t[2] for t in seen})


def describe(ev, why):
    return "pdf417.Encode(%d bytes %r..., level %d): %s" % (len(ev["content"]), bytes(ev["content"][:16]), ev["p"][0], why)


def run(tier):
    chk = vlib.Check("C04", tier)
    quick = tier == "quick"
    chk.add_model([dict(module="MC_PDF417.tla", cfg="MC_PDF417.cfg", workers=4, timeout=3000, heap="6g"),
                   dict(module="MC_PDFText.tla", cfg="MC_PDFText_quick.cfg" if quick else "MC_PDFText_thorough.cfg", workers=8, timeout=5000, heap="6g"),
                   dict(module="MC_PDFText.tla", cfg="MC_PDFText_prefix.cfg", workers=2, timeout=3000, heap="4g"),
                   dict(module="MC_PDFText.tla", cfg="MC_PDFText_nofix.cfg", workers=2, timeout=3000, heap="4g", expect_violation="RoundTrip")])
    drive = vlib.build_harness(chk.work)
    jobs = pdf_jobs(chk.rng, quick)
    # encoder-model conformance: what the real high-level encoder emits for every string of MC_PDFText's state space, compared with
    # PDFTextEnc by TraceEnc; strings where the code left the model are encoded through the public API and read back like all others
    wrong, drift = encconf.conformance(chk, "pdf", quick)
    for k, c in enumerate(wrong + drift):
        jobs.append(gen.enc("pdf", list(c["content"]), (k % 3,)))
    evs, extras = onedim.judge(chk, drive, jobs, "TracePDF", "TracePDF.cfg", 14 if quick else 16, wanted, heap="4g", timeout=6000, describe=describe)
    ok = [e for e in evs if e["res"]["kind"] == "ok"]
    chk.cov["symbols_decoded"] = len(ok)
    chk.cov["rejected_inputs"] = len(evs) - len(ok)
    chk.cov["pixels_read"] = sum(e["res"]["w"] * e["res"]["hh"] for e in ok)
    pdf_cov(chk, extras)
    ex = next(e for e in ok if e["res"]["hh"] <= 8 and len(e["content"]) > 3)
    chk.sample(dict(data=bytes(ex["content"]).decode("latin-1"), level=ex["p"][0], first_row="".join(map(str, ex["res"]["px"][0]))))
    chk.cov["coverage_shortfall"] = len(chk.cov["levels_decoded"]) < 9
    chk.assumptions += ["the 3 x 929 codeword bar patterns are pinned from the tree at the start of the task and validated structurally (DESIGN.md 4.3)",
                        "row indicator formulas, GF(929) arithmetic, compaction tables written from ISO/IEC 15438", "2-row symbols are accepted (the property text counts shapes 2..30)"]
    return chk.finish()


def replay(path):
    return onedim.replay_generic("C04", path, "TracePDF", "TracePDF.cfg", heap="4g")
