"""C10 - Encoders accept exactly the representable inputs and never panic or hang.
model phase : the specification's own acceptance predicates are total/monotone at every boundary: QR capacity cells (MC_QRFormat), DataMatrix sizes (MC_DM),
              EAN check automaton (MC_EAN), Codabar/2of5 acceptance (MC_1DSmall), Aztec layer rule (MC_Aztec), PDF417 dimensions (MC_PDF417)
trace valid.: outcome-only events (result kind, size) of every entry point on alphabet, length and parameter boundaries, judged by the
              Representable / MustAccept / MustReject predicates of the family trace specifications"""
import vlib, onedim, gen, encconf
import C01, C02

PCTS = [0, 1, 23, 33, 50, 99, 100, 101, 400]


def entry_points():
    eps = []
    for level in range(4):
        for mode in range(4):
            eps.append(("qr", "Encode", (level, mode), {0: "HELLO 12", 1: "0123456", 2: "AB 12:", 3: "héllo"}[mode]))
    eps.append(("dm", "Encode", (), "Hello 1234"))
    for p in [(33, 0), (0, 0), (23, -2), (50, 5), (100, 0)]:
        eps.append(("aztec", "Encode", p, "Aztec 12, ab."))
    for lv in (0, 3, 8):
        eps.append(("pdf", "Encode", (lv,), "Pdf417 text 12"))
    eps.append(("c128", "Encode", (), "Code128"))
    eps.append(("c128", "EncodeWithoutChecksum", (), "Code128"))
    for cs in (0, 1):
        for full in (0, 1):
            eps.append(("c39", "Encode", (cs, full), "CODE 39"))
            eps.append(("c93", "Encode", (cs, full), "CODE 93"))
    eps.append(("codabar", "Encode", (), "A12345B"))
    eps.append(("ean", "Encode", (), "590123412345"))
    eps.append(("ean", "Encode", (), "9638507"))
    eps.append(("25", "Encode", (0,), "12345"))
    eps.append(("25", "Encode", (1,), "123456"))
    return eps


def c10_jobs(rng, quick):
    jobs = []

    def add(sym, api, p, content):
        c = content if isinstance(content, (bytes, list)) else onedim.U(content)
        jobs.append(gen.enc(sym, c, p, api=api, proj="outcome"))
    specials = [onedim.U(ch) for ch in ["\x7f", "\u0080", "ð", "ñ", "ò", "ó", "ô", "õ", "�", "€", "😀"]] + [[0xC3], [0xE2, 0x82], [0xF0, 0x9F], [0xFF], [0xC0, 0x80]]
    for (sym, api, p, sample) in entry_points():
        s = onedim.U(sample)
        mid = len(s) // 2
        # truncation aliases of the sample's own characters: runes whose low byte (U+01xx, U+04xx, U+FFxx) or low seven bits (U+00xx | 0x80) equal an
        # accepted character - an encoder that narrows runes to bytes would take them for that character
        alias = []
        for ch in sorted(set(sample))[:: (2 if quick else 1)]:
            if ord(ch) < 0x80:
                alias += [onedim.U(chr(0x100 + ord(ch))), onedim.U(chr(0x400 + ord(ch))), onedim.U(chr(0xFF00 + ord(ch))), onedim.U(chr(0x80 + ord(ch))), onedim.U(chr(0x10000 + ord(ch)))]
        for sp in alias:
            add(sym, api, p, s[:mid] + sp + s[mid + 1:])
            add(sym, api, p, s[:-1] + sp)
        for b in range(0, 256, 1 if not quick or sym in ("c128", "c39", "c93", "ean", "25", "codabar") else 3):
            add(sym, api, p, [b])
            add(sym, api, p, s[:mid] + [b] + s[mid + 1:])
        for sp in specials:
            add(sym, api, p, sp)
            add(sym, api, p, s[:mid] + sp + s[mid:])
            add(sym, api, p, sp + s)
            add(sym, api, p, s + sp)
        add(sym, api, p, [])
        add(sym, api, p, s)
        for _ in range(20 if quick else 300):
            n = rng.randint(0, 30)
            add(sym, api, p, [rng.randrange(256) for _ in range(n)])
    # length boundaries
    for n in list(range(0, 6)) + [79, 80, 81, 82, 160]:
        add("c128", "Encode", (), "A" * n)
        add("c128", "EncodeWithoutChecksum", (), "1" * n)
        add("c128", "Encode", (), "ñ" * n)
    for n in range(0, 16):
        add("ean", "Encode", (), "0" * n)
    for _ in range(6 if quick else 60):      # every final digit for seeded 7- and 12-digit prefixes: exactly one must be accepted
        for n in (7, 12):
            pre = "".join(rng.choice("0123456789") for _ in range(n))
            for d in "0123456789":
                add("ean", "Encode", (), pre + d)
    vers = list(range(1, 41)) if not quick else [1, 2, 9, 10, 26, 27, 39, 40]
    for v in vers:
        for level in range(4):
            for md, mode in ((1, 1), (2, 2), (4, 3)):
                c = C01.cap(v, level, md)
                for n in (c, c + 1):
                    add("qr", "Encode", (level, mode), C01.filler(rng, md, n, 0))
                    if v in (1, 40):
                        add("qr", "Encode", (level, 0), C01.filler(rng, md, n, 0))
    if not quick:   # exhaustive QR length sweep with homogeneous filler
        for level in range(4):
            for md, mode in ((1, 1), (2, 2), (4, 3)):
                top = C01.cap(40, level, md) + 2
                for n in range(0, top, 1):
                    if n % 7 == level or n > top - 40 or n < 40:
                        add("qr", "Encode", (level, mode), C01.filler(rng, md, n, 0))
    for i, n in enumerate(C02.NDATA):
        for k in (0, 1, 2):
            add("dm", "Encode", (), C02.recipe(rng, k, n))
            add("dm", "Encode", (), C02.recipe(rng, k, n + 1))
    for n in (1559, 1560, 2000, 4000):
        add("dm", "Encode", (), C02.recipe(rng, 1, n))
        add("dm", "Encode", (), C02.recipe(rng, 0, n))
    # parameters
    for lv in range(256) if not quick else list(range(0, 12)) + [127, 128, 200, 255]:
        add("pdf", "Encode", (lv,), "security level sweep 123")
    for n in (0, 1, 100, 1000, 1700, 1850, 1851, 2000, 2700, 2800, 3000, 6000):
        for lv in (0, 4, 8):
            add("pdf", "Encode", (lv,), "7" * n)
            add("pdf", "Encode", (lv,), "a" * n)
            add("pdf", "Encode", (lv,), bytes([200]) * (n // 2))
    for req in range(-6, 35):
        for pct in PCTS if not quick else [0, 33, 100]:
            add("aztec", "Encode", (pct, req), "ab")
            add("aztec", "Encode", (pct, req), bytes(rng.randrange(256) for _ in range(rng.choice([0, 5, 40, 200]))))
    # payloads that admit one encoding only and cannot need bit stuffing (0xAA / 0xD5): acceptance is then known almost exactly, so every layer-count
    # boundary of the automatic size search - including the largest symbol - is a sharp accept/reject boundary
    for L in (range(1, 33) if not quick else [1, 2, 3, 8, 9, 22, 23, 30, 31, 32]):
        tot = (112 + 16 * L) * L
        w = 6 if L <= 2 else 8 if L <= 8 else 10 if L <= 22 else 12
        for pct in ((0, 33) if quick else (0, 23, 33, 100)):
            cap = int(((tot - tot % w) - 5 * w - 11) / (1 + pct / 100.0) / 8) - 3
            for n in (cap - 25, cap - 8, cap):
                if n > 0:
                    add("aztec", "Encode", (pct, 0), bytes([170, 213][i % 2] for i in range(n)))
                    if L <= 4 or not quick:
                        add("aztec", "Encode", (pct, L), bytes([170]) * n)
    for n in (0, 1, 500, 1000, 1500, 1900, 2000, 2500, 3000, 3500, 4000, 8000):
        for pct in (0, 23, 100):
            add("aztec", "Encode", (pct, 0), bytes([170]) * n)
            add("aztec", "Encode", (pct, 0), "1" * n)
    # 2 of 5 / codabar / code 39 / 93 lengths
    for n in range(0, 9):
        for il in (0, 1):
            add("25", "Encode", (il,), "7" * n)
        jobs.append(dict(op="addchecksum", content=onedim.U("7" * n)))
        add("codabar", "Encode", (), "A" + "1" * n + "B")
        add("codabar", "Encode", (), "1" * n)
    # QR Numeric / Auto: every position of digit strings of length 1..9 replaced by a character that a lenient number parser swallows
    for n in range(1, 10):
        for pos in range(n):
            for ch in "+-_ .eExX,":
                if quick and (n * 7 + pos * 3 + ord(ch)) % 3 != rng.randrange(3) and n > 4:
                    continue
                base = "".join(rng.choice("0123456789") for _ in range(n))
                for mode in (1, 0):
                    add("qr", "Encode", (rng.randrange(4), mode), base[:pos] + ch + base[pos + 1:])
    return jobs


def wanted(ev, tag):
    # size choices on which the real Aztec encoder left AztecSel!Select (tools/encconf.py) are encoded with pixels: an explicit request that the
    # model refuses because the stuffed stream does not fit, but the code accepts, yields a symbol that does not read back - the payload was
    # not representable in the requested symbol, so that failure is C10's (as well as C03's)
    if ev.get("tag") == "azsel" and ev.get("res", {}).get("kind") == "ok" and onedim.is_roundtrip(tag):
        return True
    return tag.startswith("outcome-") or tag in ("reject-representable", "accept-unrepresentable")


def describe(ev, why):
    return "%s.%s(%r%s, %s) -> %s: %s" % (ev.get("sym", "twooffive"), ev.get("api", "AddCheckSum"), bytes(ev["content"][:24]), "..." if len(ev["content"]) > 24 else "",
                                       ev.get("p"), ev["res"]["kind"] + (" " + ev["res"].get("msg", "")[:60] if ev["res"]["kind"] != "ok" else ""), why)


def run(tier):
    chk = vlib.Check("C10", tier)
    quick = tier == "quick"
    chk.add_model([dict(module="MC_QRFormat.tla", cfg="MC_QRFormat.cfg", workers=4, timeout=3000, heap="6g"),
                   dict(module="MC_EAN.tla", cfg="MC_EAN.cfg", workers=2),
                   dict(module="MC_1DSmall.tla", cfg="MC_1DSmall_quick.cfg", workers=4),
                   dict(module="MC_Aztec.tla", cfg="MC_Aztec.cfg", workers=4, heap="6g"),
                   dict(module="MC_PDF417.tla", cfg="MC_PDF417.cfg", workers=4, heap="6g"),
                   dict(module="MC_PDFDims.tla", cfg="MC_PDFDims.cfg", workers=4)])
    drive = vlib.build_harness(chk.work)
    jobs = c10_jobs(chk.rng, quick)
    for d in encconf.aztec_selection(chk, quick):          # size choices / refusals where the real encoder left AztecSel!Select (tools/encconf.py)
        jobs.append(gen.enc("aztec", d["content"], tuple(d["p"]), proj="full", tag="azsel"))
    evs, _ = onedim.judge_multi(chk, drive, jobs, wanted, nshards=14 if quick else 16, describe=describe)
    kinds = {}
    for e in evs:
        k = (e.get("sym", "25-addchecksum"), e["res"]["kind"])
        kinds[k] = kinds.get(k, 0) + 1
    chk.cov["outcomes_by_family"] = {"%s:%s" % k: v for k, v in sorted(kinds.items())}
    chk.cov["entry_points"] = len(entry_points()) + 1
    chk.cov["panics"] = sum(1 for e in evs if e["res"]["kind"] == "panic")
    chk.cov["timeouts"] = sum(1 for e in evs if e["res"]["kind"] == "timeout")
    for e in evs[:3] + evs[-2:]:
        chk.sample(dict(sym=e.get("sym"), api=e.get("api"), p=e.get("p"), content=bytes(e["content"][:20]).decode("latin-1"), outcome=e["res"]["kind"]))
    chk.assumptions += ["'never hangs' is evidenced by a 30 s per-call deadline only", "Aztec and PDF417 acceptance is judged two-sidedly (MustAccept by an always-available byte encoding, MustReject by a true lower bound); inputs in between may go either way",
                        "undefined level/mode constants, negative percentages and Code 93 placeholder runes in basic mode are outside the domain"]
    return chk.finish()


def replay(path):
    return onedim.replay_multi("C10", path)
