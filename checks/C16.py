"""C16 - Encoders are safe for concurrent use and leave nothing running.
model phase : RSCache.tla (mutex-protected lazily grown cache: all interleavings of 2-3 clients, liveness, negative model without the lock),
              Pipelines.tla (the three goroutine/channel pipelines of the QR encoder: termination, NoLeak under fairness, negative models produced != consumed)
binding     : (a) code -> spec: cmd/stress built with -tags verif -race runs mixed symbologies + Scale from cold start in fresh processes with 2..64 goroutines and
              GOMAXPROCS 1..16; hook events (lock/extend/unlock under the mutex, goroutine spawn/exit, produced/consumed byte counts), per-call digests, the result
              of each job run alone, goroutines left alive, race-detector reports and watchdog timeouts are validated by TraceConc.tla;
              (b) spec -> code: TLC-simulated behaviours of RSCache.tla (who requests which degree, in which order the lock is acquired) are imposed on real
              goroutines sharing one encoder through the blocking hook; the observed lock/extend/unlock sequence and results are validated by TraceConc / TraceGF"""
import json, os, re, subprocess
import vlib, onedim, gen
import C01, C02


def stress_jobs(rng, n):
    jobs = []
    for k in range(n):
        r = rng.random()
        if r < 0.3:
            v = rng.randint(1, 9)
            level, md = rng.randrange(4), rng.choice([1, 2, 4])
            c = C01.filler(rng, md, rng.randint(0, max(1, C01.cap(v, level, md))), 1)
            jobs.append(dict(sym="qr", content=list(c if isinstance(c, bytes) else c.encode()), p=[level, rng.choice([0, {1: 1, 2: 2, 4: 3}[md]])]))
        elif r < 0.5:
            jobs.append(dict(sym="dm", content=list(C02.recipe(rng, rng.randrange(3), rng.choice([2, 9, 30, 80, 150, 250]))), p=[]))
        elif r < 0.65:
            jobs.append(dict(sym="aztec", content=[rng.choice(b"abcXYZ 012.,\x80") for _ in range(rng.choice([0, 3, 20, 80]))], p=[rng.choice([0, 23, 50]), rng.choice([0, 0, -2, 4])]))
        elif r < 0.70:
            jobs.append(dict(sym="pdf", content=[rng.choice(b"abcXYZ 0123456789;\x80") for _ in range(rng.choice([0, 5, 40, 150]))], p=[rng.randrange(9)]))
        elif r < 0.75:       # the three compaction modes in long runs: numeric (13+ digits), byte, text
            kind = rng.randrange(3)
            n = rng.choice([13, 20, 44, 45, 90, 150])
            c = [rng.choice(b"0123456789") for _ in range(n)] if kind == 0 else ([rng.randrange(128, 256) for _ in range(n)] if kind == 1 else [rng.choice(b"abc def") for _ in range(n)])
            jobs.append(dict(sym="pdf", content=list(b"ID ") * rng.randint(0, 1) + c, p=[rng.randrange(9)]))
        elif r < 0.8:
            jobs.append(dict(sym="qr", content=list(b"NOT ALNUM lower"), p=[1, 2]))      # early error return of the alphanumeric pipeline
        else:
            sym, c, p = rng.choice(gen.SAMPLES[4:])
            jobs.append(dict(sym=sym, content=onedim.U(c), p=list(p)))
    # symbols filled to (within a character of) their capacity: the terminator / padding logic decides how many bytes the
    # IterateBytes producer sends, splitToBlocks receives exactly the symbol's data bytes (Pipelines.tla: produced = consumed)
    for _ in range(4):
        v, level, md = rng.randint(1, 7), rng.randrange(4), rng.choice([1, 2, 1, 2, 4])
        c = C01.cap(v, level, md) - rng.choice([0, 0, 1, 2])
        f = C01.filler(rng, md, max(0, c), 1)
        jobs.append(dict(sym="qr", content=list(f if isinstance(f, bytes) else f.encode()), p=[level, rng.choice([0, {1: 1, 2: 2, 4: 3}[md]])]))
    # degenerate contents: data blocks that are all zero (or all one) bits take the early exits of the polynomial arithmetic
    jobs.append(dict(sym="qr", content=list(b"1" + b"0" * 100), p=[3, 0]))
    jobs.append(dict(sym="qr", content=list(b"0" * 60), p=[rng.randrange(4), 1]))
    jobs.append(dict(sym="qr", content=[0] * 40, p=[1, 3]))
    jobs.append(dict(sym="aztec", content=[0] * 30, p=[23, 0]))
    jobs.append(dict(sym="pdf", content=list(b"0" * 44), p=[2]))
    jobs.append(dict(sym="dm", content=[255] * 20, p=[]))
    # error paths: refused inputs (too long for the largest symbol, characters outside the mode) must leave nothing running either
    jobs.append(dict(sym="qr", content=[65] * rng.choice([4297, 4400, 5000]), p=[0, rng.choice([0, 2])]))
    jobs.append(dict(sym="qr", content=[49] * rng.choice([7090, 7200]), p=[0, rng.choice([0, 1])]))
    jobs.append(dict(sym="qr", content=[65] * 1853, p=[3, 2]))
    jobs.append(dict(sym="qr", content=[97] * 2954, p=[0, rng.choice([0, 3])]))
    jobs.append(dict(sym="qr", content=list(b"12345x"), p=[1, 1]))
    for c in ("\u0080", "AB\u0080", "\x7f", "A\u00e9", "12\u0660"):      # characters just outside each alphabet: refused or byte mode, never fatal
        jobs.append(dict(sym="qr", content=list(c.encode("utf-8")), p=[rng.randrange(4), rng.choice([0, 2, 1])]))
    jobs.append(dict(sym="c128", content=list("A\u0080".encode("utf-8")), p=[]))
    jobs.append(dict(sym="c39", content=list("A\u0080".encode("utf-8")), p=[1, 1]))
    jobs.append(dict(sym="dm", content=[65] * 1559, p=[]))
    jobs.append(dict(sym="aztec", content=[200] * 3200, p=[33, 0]))
    jobs.append(dict(sym="pdf", content=[97] * 2800, p=[rng.randrange(9)]))
    for k, j in enumerate(jobs):
        j["key"] = k + 1
    return jobs


def coldstart_classes(rng):
    txt = lambda n, al=b"abcdefgh XYZ": [rng.choice(al) for _ in range(n)]
    return [
        ("aztec-wordsizes", [dict(sym="aztec", content=txt(10), p=[23, L]) for L in (-1, 1, 4, 9, 12, 22, 23, 27)]),      # 6-, 8-, 10- and 12-bit codewords (GF(64)..GF(4096))
        ("aztec-auto-large", [dict(sym="aztec", content=txt(n), p=[33, 0]) for n in (300, 700, 1500)]),
        ("dm-sizes", [dict(sym="dm", content=list(C02.recipe(rng, 1, n)), p=[]) for n in (3, 44, 204, 456, 1050, 1558)]),  # single-block .. ten-block symbols
        ("qr-versions", [dict(sym="qr", content=list(C01.filler(rng, 4, C01.cap(v, lv, 4) - 1, 1)), p=[lv, 3]) for (v, lv) in ((1, 0), (7, 1), (14, 2), (27, 3), (40, 0))]),
        ("pdf-levels", [dict(sym="pdf", content=txt(40 + 10 * lv, b"abc XYZ 0123456789;\x80"), p=[lv]) for lv in range(9)]),
        ("pdf-numeric-byte", [dict(sym="pdf", content=txt(n, b"0123456789"), p=[2]) for n in (13, 44, 45, 100, 200)] + [dict(sym="pdf", content=txt(n, bytes(range(128, 200))), p=[1]) for n in (6, 12, 13, 60)]),
        ("one-dimensional", [dict(sym=sym, content=onedim.U(c), p=list(p)) for (sym, c, p) in gen.SAMPLES[4:]]),
    ]


def run_stress(chk, binary, jobs, g, procs, rounds, seedv, name):
    jp = os.path.join(chk.work, name + ".jobs")
    ep = os.path.join(chk.work, name + ".events")
    vlib.write_ndjson(jp, jobs)
    env = dict(os.environ, GOMAXPROCS=str(procs), GORACE="halt_on_error=0 exitcode=0")
    try:
        p = subprocess.run([binary, "-in", jp, "-out", ep, "-g", str(g), "-rounds", str(rounds), "-seed", str(seedv)], capture_output=True, text=True, timeout=3000, env=env)
    except subprocess.TimeoutExpired:
        raise vlib.Inconclusive("stress run did not end within 3000 s although its own watchdog should have ended it")
    evs = vlib.read_ndjson(ep) if os.path.exists(ep) else []
    if any(e.get("op") == "timeout" for e in evs):
        raise vlib.Inconclusive("stress run %s was still making progress after its time limit (machine too loaded?): no verdict" % name)
    if "WARNING: DATA RACE" in p.stderr:
        evs.append(dict(op="race", hist=0, report=p.stderr[:1500]))
    if p.returncode not in (0, 3) :
        evs.append(dict(op="crash", hist=0, rc=p.returncode, report=p.stderr[-800:]))
    return evs, p.stderr


def behaviours(chk, num):
    d = vlib.stage_specs(os.path.join(chk.work, "sim"))
    res = vlib.tlc(d, "SimRSCache.tla", "SimRSCache.cfg", workers=1, simulate="num=%d" % num, depth=90, seedv=vlib.seed(), timeout=600)
    out = [json.loads(m.group(1).replace('\\"', '"')) for m in re.finditer(r'<<"BEHAVIOUR", "(.*)">>', res.out)]
    if len(out) < num // 2:
        raise vlib.Inconclusive("RSCache simulation produced %d behaviours\n%s" % (len(out), res.out[-1500:]))
    return out


def run(tier):
    chk = vlib.Check("C16", tier)
    quick = tier == "quick"
    runs = [dict(module="MC_RSCache.tla", cfg="MC_RSCache_2.cfg", workers=2), dict(module="MC_RSCache.tla", cfg="MC_RSCache_nolock.cfg", workers=1, expect_violation="CacheCorrect")]
    if not quick:
        runs.append(dict(module="MC_RSCache.tla", cfg="MC_RSCache_3.cfg", workers=4))
    for f in sorted(os.listdir(os.path.join(vlib.SPEC, "mc"))):
        if f.startswith("MC_Pipelines_") and f.endswith(".cfg"):
            exp = "temporal" if "leak" in f else ("NoZeroFill" if "zerofill" in f else None)
            r = dict(module="MC_Pipelines.tla", cfg=f, workers=1, timeout=300, heap="1g")
            if exp:
                r["expect_violation"] = exp
            runs.append(r)
    chk.add_model(runs)
    binary = vlib.build_harness(chk.work, race=True, cmd="stress")
    rng = chk.rng
    # (a) stress, code -> spec
    configs = [(2, 1), (2, 4), (8, 2), (8, 16), (64, 4), (16, 1)] if quick else [(g, p) for g in (2, 8, 64) for p in (1, 2, 4, 16)] + [(3, 3), (32, 8)]
    traces, total = [], 0
    stuck = False
    for k, (g, procs) in enumerate(configs):
        if stuck:
            break            # one hung run is enough evidence; do not wait for the watchdog again in every configuration
        for rep in range(1 if quick else 3):
            jobs = stress_jobs(rng, 14 if quick else 40)
            evs, _ = run_stress(chk, binary, jobs, g, procs, 1 if g >= 32 else 2, vlib.seed() * 100 + k * 10 + rep, "st%d_%d" % (k, rep))
            for e in evs:
                e["hist"] = len(traces)
            evs.insert(0, dict(op="config", g=g, gomaxprocs=procs, hist=len(traces)))
            traces.append((("stress g=%d GOMAXPROCS=%d" % (g, procs)), jobs, evs, g, procs))
            stuck = stuck or any(e["op"] == "deadlock" for e in evs)
            total += sum(1 for e in evs if e["op"] == "cencode")
    # (a'') cold-start classes: lazily initialised package state (tables, fields, caches) is first touched by whichever call needs it, so each class
    # of symbols gets fresh processes in which all goroutines make exactly those calls as the very first calls of the process
    for cname, cjobs in coldstart_classes(rng):
        for k, j in enumerate(cjobs):
            j["key"] = k + 1
        for (g, procs) in ([(16, 8)] if quick else [(16, 8), (4, 2), (64, 16)]):
            if stuck:
                break
            evs, _ = run_stress(chk, binary, cjobs, g, procs, 1, vlib.seed() * 131 + g, "cold_" + cname)
            for e in evs:
                e["hist"] = len(traces)
            evs.insert(0, dict(op="config", g=g, gomaxprocs=procs, hist=len(traces)))
            traces.append((("cold start %s g=%d GOMAXPROCS=%d" % (cname, g, procs)), cjobs, evs, g, procs))
            stuck = stuck or any(e["op"] == "deadlock" for e in evs)
            total += sum(1 for e in evs if e["op"] == "cencode")
    # (a') pipeline sweep: every QR (version <= 10 / 40) x level x mode filled to capacity and to capacity - 1, sequentially in one process:
    # the hook event qr.split must show produced = consumed for each, and nothing may be left running
    sweep = []
    for v in range(1, 11 if quick else 41):
        for level in range(4):
            for md in (1, 2, 4):
                for d in (0, 1):
                    f = C01.filler(rng, md, max(0, C01.cap(v, level, md) - d), 0)
                    sweep.append(dict(sym="qr", content=list(f if isinstance(f, bytes) else f.encode()), p=[level, {1: 1, 2: 2, 4: 3}[md]], key=len(sweep) + 1))
    evs, _ = run_stress(chk, binary, sweep, 1, 1, 1, 1, "sweep")
    for e in evs:
        e["hist"] = len(traces)
    evs.insert(0, dict(op="config", g=1, gomaxprocs=1, hist=len(traces)))
    traces.append(("pipeline sweep", sweep, evs, 1, 1))
    total += sum(1 for e in evs if e["op"] == "cencode")
    # (b) schedules, spec -> code
    behs = behaviours(chk, 20 if quick else 400)
    sched_traces = []
    for b in behs:
        clients = sorted({x["c"] for x in b})
        sched = dict(field=[19, 16, 1], clients=[[x["d"] for x in b if x["a"] == "call" and x["c"] == c] for c in clients],
                     order=[clients.index(x["c"]) for x in b if x["a"] == "lock"], data=[rng.randrange(16) for _ in range(4)])
        sp = os.path.join(chk.work, "sched.json")
        ep = os.path.join(chk.work, "sched.events")
        json.dump(sched, open(sp, "w"))
        try:
            p = subprocess.run([binary, "-mode", "schedule", "-stall", "90", "-in", sp, "-out", ep], capture_output=True, text=True, timeout=900, env=dict(os.environ, GORACE="halt_on_error=0 exitcode=0"))
            evs = vlib.read_ndjson(ep)
            if "WARNING: DATA RACE" in p.stderr:
                evs.append(dict(op="race", hist=0))
        except subprocess.TimeoutExpired:
            raise vlib.Inconclusive("schedule replay did not end within 900 s although its own watchdog should have ended it")
        sched_traces.append((sched, evs))
    # validation: TraceConc on every trace (the config pseudo-event is skipped), TraceGF on the schedule runs' results
    shards = [[e for e in t[2] if e["op"] != "config"] for t in traces] + [evs for _, evs in sched_traces]
    acc, bad, st, tr = vlib.validate_traces(chk.work, "TraceConc", "TraceConc.cfg", shards, timeout=3000, heap="3g")
    gf_shards = [[e for e in evs if e["op"] == "rs"] for _, evs in sched_traces]
    gf_shards = [s for s in gf_shards if s]
    acc2, bad2, st2, tr2 = vlib.validate_traces(chk.work, "TraceGF", "TraceGF.cfg", [sum(gf_shards, [])], timeout=3000, heap="3g")
    chk.cov["states"] += st + st2
    chk.cov["transitions"] += tr + tr2
    chk.cov["traces_validated_against_impl"] = len(shards)
    chk.cov.update(stress_processes=len(traces), concurrent_calls=total, goroutine_counts=sorted({t[3] for t in traces}), gomaxprocs=sorted({t[4] for t in traces}),
                   hook_events=sum(1 for s in shards for e in s if e["op"] == "hook"), schedules_replayed=len(sched_traces),
                   rs_results_checked=acc2, lock_acquisitions=sum(1 for s in shards for e in s if e["op"] == "hook" and e["ev"] == "rs.locked"),
                   goroutines_spawned=sum(1 for s in shards for e in s if e["op"] == "hook" and e["ev"] == "go.spawn"))
    chk.sample(dict(schedule_from_TLC=sched_traces[0][0]))
    chk.sample(dict(hook_events=[{k: v for k, v in e.items() if k in ("ev", "enc", "a", "b", "gid")} for e in traces[0][2] if e["op"] == "hook"][:8]))
    # A behaviour of RSCache.tla takes the lock in every call. An implementation that does not (a lock-free path for cached degrees, say) cannot
    # be driven through it: that is not a violation of C16 - the run is still validated for mutual exclusion, cache growth and results.
    not_imposed = [b for b in bad if b["why"] == "schedule-not-imposed"]
    chk.cov["schedules_not_imposable"] = len(not_imposed)
    bad = [b for b in bad if b["why"] != "schedule-not-imposed"]
    seen = set()
    for b in bad:
        idx = b["shard"]
        why = b["why"]
        kind = "stress" if idx < len(traces) else "schedule"
        k = "%s why=%s" % (kind, why)
        if k in seen:
            continue
        seen.add(k)
        # reproduce: run the same configuration again, up to 5 fresh processes (schedules are deterministic at hook granularity; stress is not)
        again = False
        for attempt in range(10 if why.startswith("differs") else 5):
            if kind == "stress":
                name, jobs, _, g, procs = traces[idx]
                evs2, _ = run_stress(chk, binary, jobs, g, procs, 2 + attempt // 3, vlib.seed() * 977 + attempt, "re")
                replay_obj = dict(kind="stress", jobs=jobs, g=g, gomaxprocs=procs, expect=why)
            else:
                sched = sched_traces[idx - len(traces)][0]
                json.dump(sched, open(os.path.join(chk.work, "sched.json"), "w"))
                subprocess.run([binary, "-mode", "schedule", "-stall", "90", "-in", os.path.join(chk.work, "sched.json"), "-out", os.path.join(chk.work, "re.events")], capture_output=True, timeout=900)
                evs2 = vlib.read_ndjson(os.path.join(chk.work, "re.events"))
                replay_obj = dict(kind="schedule", sched=sched, expect=why)
            _, b2, _, _ = vlib.validate_traces(chk.work, "TraceConc", "TraceConc.cfg", [evs2], timeout=3000)
            if why in {x["why"] for x in b2}:
                again = True
                break
        if not again:
            raise vlib.Inconclusive("unreproduced concurrency rejection: %s" % k)
        chk.report(k, "%s: %s" % (k, json.dumps(b["event"])[:200]), replay_obj)
    for b in bad2:
        chk.report("schedule rs why=%s" % b["why"], "Reed-Solomon result under an imposed schedule: %s" % b["why"], dict(kind="schedule-rs", expect=b["why"]))
    chk.assumptions += ["'no data race' for memory the specification does not name is observed by the Go race detector (-race), not derived from TLA+",
                        "the Go scheduler is steered only at hook points (rs.wait / rs.unlock); interleavings between non-hooked instructions are explored by stress only",
                        "a goroutine counts as leaked if it still has a library frame on its stack 5 s after all calls returned"]
    return chk.finish()


def replay(path):
    r = json.load(open(path))["replay"]
    chk = vlib.Check("C16", "quick")
    binary = vlib.build_harness(chk.work, race=True, cmd="stress")
    hit = 0
    for attempt in range(10):
        if r["kind"] == "stress":
            evs, _ = run_stress(chk, binary, r["jobs"], r["g"], r["gomaxprocs"], 2, attempt, "re")
        else:
            json.dump(r["sched"], open(os.path.join(chk.work, "s.json"), "w"))
            subprocess.run([binary, "-mode", "schedule", "-stall", "90", "-in", os.path.join(chk.work, "s.json"), "-out", os.path.join(chk.work, "s.events")], capture_output=True, timeout=900)
            evs = vlib.read_ndjson(os.path.join(chk.work, "s.events"))
        _, bad, _, _ = vlib.validate_traces(chk.work, "TraceConc", "TraceConc.cfg", [evs])
        if r["expect"] in {b["why"] for b in bad}:
            print("REPRODUCED attempt=%d why=%s" % (attempt, r["expect"]))
            hit = 1
            break
    return hit
