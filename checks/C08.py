"""C08 - Codabar and 2-of-5: symbols decode to the given digits/characters; check-digit helper."""
import vlib, onedim

def wanted(ev, tag):
    if ev["op"] == "addchecksum":
        return True
    return ev.get("sym") in ("codabar", "25") and onedim.is_roundtrip(tag)

def run(tier):
    chk = vlib.Check("C08", tier)
    quick = tier == "quick"
    chk.add_model([dict(module="MC_1DSmall.tla", cfg="MC_1DSmall_quick.cfg" if quick else "MC_1DSmall_thorough.cfg", workers=8, timeout=3000)])
    drive = vlib.build_harness(chk.work)
    jobs = onedim.codabar_jobs(chk.rng, quick) + onedim.tof_jobs(chk.rng, quick)
    evs, _ = onedim.judge(chk, drive, jobs, "Trace1D", "Trace1D.cfg", 12 if quick else 16, wanted)
    ok = [e for e in evs if e["res"]["kind"] == "ok"]
    chk.cov.update(symbols_decoded=sum(1 for e in ok if e["op"] == "encode"), addchecksum_calls=sum(1 for e in evs if e["op"] == "addchecksum"),
                   rejected_inputs=len(evs) - len(ok),
                   by_kind={k: sum(1 for e in ok if e["op"] == "encode" and (e["sym"], tuple(e["p"])) == k2) for k, k2 in
                            (("codabar", ("codabar", ())), ("2of5", ("25", (0,))), ("2of5-interleaved", ("25", (1,))))})
    ex = next(e for e in ok if e.get("sym") == "codabar" and len(e["content"]) == 4)
    chk.sample(dict(sym="codabar", content=bytes(ex["content"]).decode(), modules="".join(map(str, ex["res"]["px"][0]))))
    chk.assumptions += ["Codabar and 2 of 5 element tables written from the standards", "2 of 5 wide elements may be 2 or 3 modules (the library draws 3 in data, 2 in the standard start/stop)",
                        "Codabar length 5-6 and 2 of 5 length 6-7 exhaustive sweeps are sampled, not exhaustive, in this revision"]
    return chk.finish()

def replay(path):
    return onedim.replay_generic("C08", path, "Trace1D", "Trace1D.cfg")
