"""C07 - Code 39 and Code 93: symbols decode to the given text in every option mix."""
import vlib, onedim

def wanted(ev, tag):
    return ev.get("sym") in ("c39", "c93") and onedim.is_roundtrip(tag)

def run(tier):
    chk = vlib.Check("C07", tier)
    quick = tier == "quick"
    chk.add_model([dict(module="MC_Code39.tla", cfg="MC_Code39_quick.cfg" if quick else "MC_Code39_thorough.cfg", workers=8, timeout=3000)])
    drive = vlib.build_harness(chk.work)
    jobs = onedim.c39_93_jobs(chk.rng, quick, "c39") + onedim.c39_93_jobs(chk.rng, quick, "c93")
    evs, _ = onedim.judge(chk, drive, jobs, "Trace1D", "Trace1D.cfg", 12 if quick else 16, wanted)
    ok = [e for e in evs if e["res"]["kind"] == "ok"]
    chk.cov.update(symbols_decoded=len(ok), rejected_inputs=len(evs) - len(ok),
                   option_mixes=sorted({(e["sym"], tuple(e["p"])) for e in ok}),
                   max_length=max(len(e["content"]) for e in ok))
    ex = next(e for e in ok if e["sym"] == "c93" and e["p"] == [1, 1] and len(e["content"]) == 2)
    chk.sample(dict(sym="c93", includeChecksum=True, fullASCII=True, content=ex["content"], modules="".join(map(str, ex["res"]["px"][0]))))
    chk.assumptions += ["Code 39 / Code 93 pattern tables written from the standards (element counts and distinctness ASSUMEd)",
                        "Code 93 basic mode with the placeholder runes U+00F1-U+00F4 is outside the property's domain"]
    return chk.finish()

def replay(path):
    return onedim.replay_generic("C07", path, "Trace1D", "Trace1D.cfg")
