"""C14 - CheckSum() reports the symbology's real check value (EAN, Code 128, Code 39), unchanged by scaling.
model phase : check automata of MC_EAN / MC_Code39 / MC_Code128 (shared with C05-C07); single-substitution detection (MC_CheckDetect); checksum forwarding through Scale in MC_ScaleAlgo's spec
trace valid.: `cs` conjunct of Trace1D on encode events (value recomputed from the symbol values the reader recovered),
              `checksum` conjunct of TraceScale on 1..3 rounds of Scale of each barcode"""
import vlib, onedim, gen

def wanted(ev, tag):
    return tag == "cs"

def run(tier):
    chk = vlib.Check("C14", tier)
    quick = tier == "quick"
    chk.add_model([dict(module="MC_EAN.tla", cfg="MC_EAN.cfg", workers=4),
                   dict(module="MC_Code39.tla", cfg="MC_Code39_quick.cfg", workers=4),
                   # what the check values are for: every single-symbol substitution changes them (all lengths to 14 / 45)
                   dict(module="MC_CheckDetect.tla", cfg="MC_CheckDetect_ean.cfg", workers=2),
                   dict(module="MC_CheckDetect.tla", cfg="MC_CheckDetect_c93c.cfg", workers=2),
                   dict(module="MC_CheckDetect.tla", cfg="MC_CheckDetect_c93k.cfg", workers=2),
                   dict(module="MC_CheckDetect.tla", cfg="MC_CheckDetect_c39.cfg", workers=2),
                   dict(module="MC_CheckDetect.tla", cfg="MC_CheckDetect_c128.cfg", workers=2),
                   # the standard's own limit: a substitution at data position 103 of a Code 128 symbol is invisible to the check character
                   dict(module="MC_CheckDetect.tla", cfg="MC_CheckDetect_c128limit.cfg", workers=2, expect_violation="SingleSubstitutionDetected"),
                   dict(module="MC_CheckDetect.tla", cfg="MC_CheckDetect_reach.cfg", workers=1, expect_violation="HitReachable")])
    drive = vlib.build_harness(chk.work)
    rng = chk.rng
    jobs = []
    # EAN: all four input lengths, every (length, first digit, last digit) combination several times
    for n in (7, 8, 12, 13):
        for _ in range(60 if quick else 1500):
            s = "".join(rng.choice("0123456789") for _ in range(n if n in (7, 12) else n - 1))
            if n in (8, 13):
                s += gen.ean_check(s)
            jobs.append(gen.enc("ean", onedim.U(s), ()))
    # Code 128 / Code 39: random contents; targets for every check value are reached by volume (reported in the evidence)
    for _ in range(700 if quick else 12000):
        n = rng.randint(1, 12)
        jobs.append(gen.enc("c128", onedim.U("".join(rng.choice(onedim.C128_ALPHA) for _ in range(n))), ()))
    # long contents: the weighted sum grows with the square of the length (80 characters of value 90 give about 290 000)
    for n in list(range(30, 81, 2 if quick else 1)):
        for c in ("z", "9", None):
            txt = c * n if c else "".join(rng.choice("abcdefghijklmnopqrstuvwxyz{|}~") for _ in range(n))
            jobs.append(gen.enc("c128", onedim.U(txt), ()))
    for n in (60, 70, 79, 80):            # as many symbol characters as a content can need (a code-set switch before every character: up to 161)
        for unit in ("\x01a", "a\x01"):
            jobs.append(gen.enc("c128", onedim.U((unit * 41)[:n]), ()))
    for n in (20, 40, 60, 80):
        jobs.append(gen.enc("c39", onedim.U("%" * n), (1, 0)))
        jobs.append(gen.enc("c39", onedim.U("".join(rng.choice(onedim.C39_BASIC) for _ in range(n))), (1, rng.randint(0, 1))))
    for _ in range(500 if quick else 8000):
        n = rng.randint(0, 10)
        full = rng.randint(0, 1)
        alpha = [chr(i) for i in range(128)] if full else list(onedim.C39_BASIC)
        jobs.append(gen.enc("c39", onedim.U("".join(rng.choice(alpha) for _ in range(n))), (rng.randint(0, 1), full)))
    evs, _ = onedim.judge(chk, drive, jobs, "Trace1D", "Trace1D.cfg", 10 if quick else 16, wanted)
    ok = [e for e in evs if e["res"]["kind"] == "ok"]
    chk.cov["checksums_validated"] = len(ok)
    chk.cov["code128_check_values_seen"] = len({e["res"]["cs"] for e in ok if e["sym"] == "c128"})
    chk.cov["ean_by_input_length"] = {str(n): sum(1 for e in ok if e["sym"] == "ean" and len(e["content"]) == n) for n in (7, 8, 12, 13)}
    # through Scale: 1..3 rounds for a sample of each family; TraceScale's `checksum` conjunct (has the interface, same value)
    sjobs, hid, hist = [], 0, 0
    sample = rng.sample([e for e in ok], min(len(ok), 90 if quick else 900))
    for e in sample:
        hist += 1
        hid += 1
        src = hid
        sjobs.append(dict(onedim.strip(e), hid=src, hist=hist))
        w = e["res"]["w"]
        cur = src
        for k in range(rng.randint(1, 3)):
            hid += 1
            w = w * rng.randint(1, 2) + rng.randint(0, 5)
            sjobs.append(dict(op="scale", src=cur, w=w, hh=rng.randint(1, 3), hid=hid, hist=hist))
            cur = hid
    sevs = vlib.run_drive(drive, sjobs, chk.work, name="scale")
    shards = vlib.shard(sevs, 8, key=lambda e: e["hist"])
    acc, bad, st, tr = vlib.validate_traces(chk.work, "TraceScale", "TraceScale.cfg", shards, timeout=3000)
    chk.cov["states"] += st
    chk.cov["transitions"] += tr
    chk.cov["scaled_checksums_validated"] = sum(1 for e in sevs if e["op"] == "scale")
    chk.cov["traces_validated_against_impl"] += acc
    for b in [b for b in bad if b["why"] == "checksum"][:5]:
        hist_jobs = [onedim.strip(e) for e in sevs if e["hist"] == b["event"]["hist"] and e["i"] <= b["event"]["i"]]
        sub = vlib.run_drive(drive, hist_jobs, chk.work, name="repro2")
        _, bad2, _, _ = vlib.validate_traces(chk.work, "TraceScale", "TraceScale.cfg", [sub])
        if not [x for x in bad2 if x["why"] == "checksum"]:
            raise vlib.Inconclusive("unreproduced checksum rejection through Scale")
        chk.report("scale why=checksum", "CheckSum() changed or disappeared through Scale", dict(jobs=hist_jobs, expect="checksum", module="TraceScale"))
    ex = next(e for e in ok if e["sym"] == "c39" and e["p"][0] == 1 and len(e["content"]) > 1)
    chk.sample(dict(sym="c39", content=ex["content"], p=ex["p"], CheckSum=ex["res"]["cs"]))
    ex = next(e for e in ok if e["sym"] == "ean" and len(e["content"]) == 12)
    chk.sample(dict(sym="ean", code=bytes(ex["content"]).decode(), completed=bytes(ex["res"]["content"]).decode(), CheckSum=ex["res"]["cs"]))
    chk.assumptions += ["the check value is recomputed by the TLA+ reader from the symbol values it recovered from the image", "Code 93 exposes no CheckSum()"]
    return chk.finish()

def replay(path):
    import json
    r = json.load(open(path))["replay"]
    if r.get("module") == "TraceScale":
        return onedim.replay_generic("C14", path, "TraceScale", "TraceScale.cfg")
    return onedim.replay_generic("C14", path, "Trace1D", "Trace1D.cfg")
