"""C13 - The smallest symbol that fits is chosen.
model phase : MinVersion / MinSizeIdx / layer rule / dimension obligations are total and monotone at every boundary (MC_QRFormat, MC_DM, MC_Aztec, MC_PDF417)
trace valid.: size-only events (QR, DataMatrix: result dimension vs the specification's minimal size), full reads for Aztec (every smaller explicit size must be
              refused: pairs of events joined through the state variable `auto`) and PDF417 (pad codewords < columns, 2..30 rows/columns)"""
import vlib, onedim, gen, encconf
import C01, C02, C03

TAGS = ("version-not-minimal", "size-not-minimal", "auto-not-minimal", "padding-row", "dimension-limits")


def c13_jobs(rng, quick):
    jobs = []

    def add(sym, c, p, proj="outcome"):
        jobs.append(gen.enc(sym, c if isinstance(c, (bytes, list)) else onedim.U(c), p, proj=proj))
    for v in range(1, 41):
        for level in range(4):
            for md, mode in ((1, 1), (2, 2), (4, 3)):
                c = C01.cap(v, level, md)
                for n in ((c - 1, c, c + 1) if not quick or v % 3 == level % 3 else (c, c + 1)):
                    if n >= 0:
                        add("qr", C01.filler(rng, md, n, 0), (level, mode))
                if not quick or v in (1, 9, 10, 26, 27, 40):
                    add("qr", C01.filler(rng, md, c, 1), (level, 0))            # Auto must find the densest mode
                    add("qr", C01.filler(rng, md, c + 1, 1), (level, 0))
    if not quick:
        for level in range(4):
            for md, mode in ((1, 1), (2, 2), (4, 3)):
                for n in range(0, C01.cap(40, level, md) + 2):
                    if n % 5 == level:
                        add("qr", C01.filler(rng, md, n, 0), (level, mode))
    for n in (range(0, 1561) if not quick else sorted({x for i in C02.NDATA for x in (i - 1, i, i + 1)})):
        for k in ((0, 1, 2) if not quick else (n % 3,)):
            add("dm", C02.recipe(rng, k, n), ())
    # Aztec: automatic size, then every smaller size explicitly
    sizes = sorted([(11 + 4 * L, -L) for L in range(1, 5)] + [(14 + 4 * L + 1 + 2 * (((14 + 4 * L) // 2 - 1) // 15), L) for L in range(1, 33)])
    # dense sweep over the small sizes (where compact and full-range symbols compete) at low and default percentages, sparse above
    payloads = (list(range(0, 131, 3)) + [150, 250]) if quick else (list(range(0, 200)) + [250, 400, 600, 900, 1300])
    combos = [(n, pct, b"abcdefg hij") for n in payloads for pct in ((10, 33) if quick else (5, 10, 16, 23, 33, 50, 100))]
    # at 0 % every length: size limits that are exact word counts (a compact symbol holds at most 64 data words) are hit by single lengths only
    combos += [(n, 0, alpha) for n in range(0, 135 if quick else 400) for alpha in ((b"ABCDEFGH IJ",) if quick else (b"ABCDEFGH IJ", b"0123456789", b"abc xyz"))]
    for (n, pct, alpha) in combos:
        if True:
            c = bytes(rng.choice(alpha) for _ in range(n))
            jobs.append(gen.enc("aztec", list(c), (pct, 0), proj="full", hist=len(jobs)))
            h = jobs[-1]["hist"]
            est = n * 5.3 * (1 + pct / 100) + 40
            for (sz, req) in sizes:
                cap_bits = ((88 if req < 0 else 112) + 16 * abs(req)) * abs(req)
                if cap_bits < 0.5 * est or cap_bits > 2.5 * est + 400:
                    continue
                jobs.append(gen.enc("aztec", list(c), (pct, req), proj="outcome", hist=h))
    # PDF417: codeword counts swept through the shapes
    for lv in range(9):
        for n in (range(0, 1700, 23) if not quick else [0, 1, 7, 30, 90, 250, 600, 1100, 1600]):
            add("pdf", "".join(rng.choice("ABCDEFGH ") for _ in range(n + lv)), (lv,), proj="full")
    return jobs


def wanted(ev, tag):
    return tag in TAGS


def describe(ev, why):
    return "%s content of %d bytes p=%s -> %dx%d: %s" % (ev["sym"], len(ev["content"]), ev["p"], ev["res"].get("w", 0), ev["res"].get("hh", 0), why)


def run(tier):
    chk = vlib.Check("C13", tier)
    quick = tier == "quick"
    chk.add_model([dict(module="MC_QRFormat.tla", cfg="MC_QRFormat.cfg", workers=4, timeout=3000, heap="6g"),
                   dict(module="MC_DM.tla", cfg="MC_DM_quick.cfg", workers=4, heap="6g"),
                   dict(module="MC_Aztec.tla", cfg="MC_Aztec.cfg", workers=4, heap="6g"),
                   dict(module="MC_PDF417.tla", cfg="MC_PDF417.cfg", workers=4, heap="6g"),
                   dict(module="MC_PDFDims.tla", cfg="MC_PDFDims.cfg", workers=4),
                   dict(module="MC_AztecSel.tla", cfg="MC_AztecSel_quick.cfg" if quick else "MC_AztecSel_thorough.cfg", workers=6, timeout=3000, heap="4g"),
                   dict(module="MC_AztecSel.tla", cfg="MC_AztecSel_noexact.cfg", workers=2, expect_violation="SelOK")])
    chk.cov["apalache_PDFRowsLemma"] = vlib.apalache(chk.work, "sym/PDFRowsLemma.tla")
    drive = vlib.build_harness(chk.work)
    jobs = c13_jobs(chk.rng, quick)
    # Aztec exact fits (single lengths / percentages fill a size exactly): a wide sweep asks the real encoder, without pixels, for the automatic
    # size of every payload length 1..300 (thorough 1..1200) of five alphabets at a dozen percentages and then requests the sizes just below it
    # explicitly. The sweep is only a generator: every pair in which the smaller request was ACCEPTED, plus a control sample of refused ones,
    # is put into the job list, executed again and judged by TraceAztec (auto-not-minimal) like every other pair.
    pcts = sorted(set([10, 50, 75] + chk.rng.sample(range(0, 101), 5 if quick else 25)))
    explored = suspicious = 0
    for alpha in (b"ABCDEFGHIJKLMNOPQRSTUVWXYZ", b"0123456789", bytes(range(128, 160)), b"abc xyz, 12. AB", b"A"):
        for pct in pcts:
            maxn = 300 if quick else 1200
            text = bytes(chk.rng.choice(alpha) for _ in range(maxn))
            autos = vlib.run_drive(drive, [gen.enc("aztec", list(text[:n]), (pct, 0), proj="outcome") for n in range(1, maxn + 1)], chk.work, name="azfit-a")
            reqs = [(n + 1, req) for n, e in enumerate(autos) if e["res"]["kind"] == "ok" for (sz, req) in C03.AZ_SIZES if e["res"]["w"] - 12 <= sz < e["res"]["w"]]
            outs = vlib.run_drive(drive, [gen.enc("aztec", list(text[:n]), (pct, req), proj="outcome") for (n, req) in reqs], chk.work, name="azfit-b")
            explored += len(autos) + len(outs)
            acc = [nr for nr, e in zip(reqs, outs) if e["res"]["kind"] == "ok"]
            suspicious += len(acc)
            for (n, req) in acc[:40] + chk.rng.sample(reqs, min(len(reqs), 12)):
                jobs.append(gen.enc("aztec", list(text[:n]), (pct, 0), proj="outcome", hist=len(jobs)))
                jobs.append(gen.enc("aztec", list(text[:n]), (pct, req), proj="outcome", hist=jobs[-1]["hist"]))
    chk.cov["aztec_exact_fit_sweep"] = dict(encodes_explored_by_generator=explored, smaller_request_accepted=suspicious, percentages=pcts)
    for d in encconf.aztec_selection(chk, quick):          # size choices where the real encoder left AztecSel!Select: as pairs (automatic, request)
        jobs.append(gen.enc("aztec", d["content"], (d["p"][0], 0), proj="outcome", hist=len(jobs)))
        h = jobs[-1]["hist"]
        if d["p"][1] != 0:
            jobs.append(gen.enc("aztec", d["content"], tuple(d["p"]), proj="outcome", hist=h))
        else:
            for (sz, req) in C03.AZ_SIZES:
                jobs.append(gen.enc("aztec", d["content"], (d["p"][0], req), proj="outcome", hist=h))
    # shape-chooser conformance (tools/encconf.py): calcDimensions for every codeword count x level against PDFDims; shapes that break the
    # rules of the property, and a sample of shapes that merely differ from the model's, are produced through the public API and measured
    wrong, drift = encconf.dims_conformance(chk)
    for (m, lv) in wrong + drift:
        jobs.append(gen.enc("pdf", [65] * (2 * m), (lv,), proj="full"))
    # Aztec pairs must stay in one shard and in order: route by hand
    evs = vlib.run_drive(drive, jobs, chk.work)
    fam = {}
    for e in evs:
        fam.setdefault(onedim.module_of(e), []).append(e)
    allbad = []
    for mod, fevs in fam.items():
        key = (lambda e: e["hist"]) if mod == "TraceAztec" else None
        n = {"TraceQR": 4, "TraceDM": 2, "TraceAztec": 6, "TracePDF": 3}.get(mod, 2)
        shards = vlib.shard(fevs, n if quick else n * 2, key=key)
        acc, bad, st, tr = vlib.validate_traces(chk.work, mod, mod + ".cfg", shards, heap=onedim.HEAP[mod], timeout=6000)
        chk.cov["states"] += st
        chk.cov["transitions"] += tr
        for b in bad:
            b["module"] = mod
        allbad += bad
    mine = [b for b in allbad if wanted(b["event"], b["why"])]
    chk.cov["traces_validated_against_impl"] = len(evs) - len({(b["module"], b["shard"], b["l"]) for b in mine})
    chk.cov["other_properties_tags_seen"] = sorted({b["why"] for b in allbad if not wanted(b["event"], b["why"])})
    reps = {}
    for b in mine:
        reps.setdefault(onedim.key_of(b["event"], b["why"]), b)
    for k, b in list(reps.items())[:30]:
        ev, mod = b["event"], b["module"]
        rjobs = [onedim.strip(e) for e in evs if mod == "TraceAztec" and e.get("sym") == "aztec" and e["hist"] == ev["hist"] and e["i"] < ev["i"] and e["p"][1] == 0][:1] + [onedim.strip(ev)]
        sub = vlib.run_drive(drive, rjobs, chk.work, name="repro")
        _, bad2, _, _ = vlib.validate_traces(chk.work, mod, mod + ".cfg", [sub], heap=onedim.HEAP[mod], timeout=6000)
        if (len(rjobs), b["why"]) not in {(x["l"], x["why"]) for x in bad2}:
            pre = [e for e in evs if mod == "TraceAztec" and e.get("sym") == "aztec" and e["hist"] == ev["hist"] and e["i"] < ev["i"] and e["p"][1] == 0][:1]
            rp = onedim.reproduce_with_history(chk, drive, evs, ev, b["why"], mod, mod + ".cfg", onedim.HEAP[mod], pre=pre)
            if rp is None:
                raise vlib.Inconclusive("unreproduced rejection: %s" % k)
            chk.report(k + " (history-dependent)", "%s: only after the %d calls made before it in the same process" % (k, len(rp["jobs"]) - 1), rp)
            continue
        chk.report(k, describe(sub[-1], b["why"]), dict(jobs=rjobs, expect=b["why"], module=mod))
    ok = [e for e in evs if e["res"]["kind"] == "ok"]
    chk.cov["sizes_checked_by_family"] = {s: sum(1 for e in ok if e["sym"] == s) for s in ("qr", "dm", "aztec", "pdf")}
    chk.cov["aztec_explicit_requests_refused"] = sum(1 for e in evs if e["sym"] == "aztec" and e["p"][1] != 0 and e["res"]["kind"] == "error")
    chk.cov["aztec_explicit_requests_accepted"] = sum(1 for e in evs if e["sym"] == "aztec" and e["p"][1] != 0 and e["res"]["kind"] == "ok")
    ex = next(e for e in ok if e["sym"] == "qr")
    chk.sample(dict(sym="qr", length=len(ex["content"]), level=ex["p"][0], mode=ex["p"][1], dimension=ex["res"]["w"]))
    ex = next(e for e in evs if e["sym"] == "aztec" and e["p"][1] != 0)
    chk.sample(dict(sym="aztec", payload=len(ex["content"]), pct=ex["p"][0], explicit_layers=ex["p"][1], outcome=ex["res"]["kind"]))
    chk.assumptions += ["QR Auto: the densest single mode that can express the content (numeric < alphanumeric < byte)", "DataMatrix: greedy digit pairing is the optimal ASCII encodation (MC_DM checks the count against the reader automaton)",
                        "Aztec minimality is judged on pairs of recorded calls (automatic vs explicit smaller size), not on an encoder model"]
    return chk.finish()


def replay(path):
    return onedim.replay_multi("C13", path)
