"""C15 - Encoding is a pure function: deterministic, history-free, no aliasing.
model phase : umbrella Barcode.tla with abstract encoders: every order of encode / one-shot / mutate / re-read (MC_Barcode), plus two negative variants
              (aliasing barcode, cache-dependent output) that must violate Immutable / Deterministic; RSCache: results independent of request order and interleaving
trace valid.: long random histories across all symbologies in one process, re-encodes of earlier arguments, re-reads of all handles, mutation of every byte of
              every []byte argument followed by re-reads, and the same encodes from freshly started processes, validated by TraceHist.tla"""
import json, os, subprocess
import vlib, onedim, gen
import C01, C02, C03, C04, C11


def pool(rng, n):
    """argument tuples across all symbologies; Reed-Solomon degrees end up requested in increasing, decreasing and shuffled order"""
    out = []
    for _ in range(n):
        r = rng.random()
        if r < 0.22:
            v = rng.randint(1, 12)
            level, md = rng.randrange(4), rng.choice([1, 2, 4])
            out.append(("qr", C01.filler(rng, md, rng.randint(0, max(1, C01.cap(v, level, md))), 1), (level, rng.choice([0, {1: 1, 2: 2, 4: 3}[md]]))))
        elif r < 0.37:
            out.append(("dm", C02.recipe(rng, rng.randrange(3), rng.choice([1, 3, 9, 20, 44, 86, 150, 204, 300])), ()))
        elif r < 0.55:
            out.append(("aztec", bytes(rng.choice(b"abcXYZ 0123.,!\x80\xff") for _ in range(rng.choice([0, 1, 3, 5, 8, 12, 15, 40, 120, 300]))), (rng.choice([0, 23, 33, 50]), rng.choice([0, 0, 0, -1, 1, -2, 2, -4, 3, 7]))))
        elif r < 0.68:
            out.append(("pdf", bytes(rng.choice(b"abcXYZ 0123456789.,;\x80") for _ in range(rng.choice([0, 2, 9, 30, 100, 400]))), (rng.randrange(9),)))
        else:
            sym, c, p = rng.choice(gen.SAMPLES[4:])
            c = onedim.U(c)
            if sym in ("c128", "c39", "c93") and rng.random() < 0.6:
                c = c + [rng.choice(b"ABC123 -.")]
            out.append((sym, c, p))
    return out


def c15_jobs(rng, quick, nhist, nenc):
    jobs, hid = [], 0
    for h in range(nhist):
        args = pool(rng, nenc // 3)
        seq = [rng.choice(args) for _ in range(nenc)]
        if h % 3 == 1:
            seq.sort(key=lambda a: (len(a[1]), a[0]))            # growing symbols: cache degrees increasing
        elif h % 3 == 2:
            seq.sort(key=lambda a: (-len(a[1]), a[0]))
        mine = []
        for (sym, c, p) in seq:
            hid += 1
            wc = rng.random() < 0.2
            sch = C11.scheme(rng.randrange(8)) if wc else None
            j = gen.enc(sym, c if isinstance(c, (list, bytes)) else onedim.U(c), p, api="EncodeWithColor" if wc else "Encode", scheme=sch, hid=hid, proj="digest", hist=h)
            j["skey"] = json.dumps(sch, sort_keys=True) if sch else ""
            jobs.append(j)
            mine.append(j)
        for j in mine:
            if rng.random() < (0.5 if quick else 0.8):
                jobs.append(dict(op="reread", src=j["hid"], proj="digest", hist=h))
    # repeat block: diverse inputs (the class pairs/triples, punctuation pairs and mode-switch texts of the Aztec and PDF417 generators, where an
    # encoder search can meet cost ties), each encoded several times within one history - identical arguments must give identical barcodes every time
    h = nhist
    az = sorted((j for j in C03.az_jobs(rng, True) if len(j["content"]) <= 24 and j["p"][1] == 0), key=lambda j: len(j["content"]))
    pdf = sorted((j for j in C04.pdf_jobs(rng, True) if len(j["content"]) <= 16), key=lambda j: len(j["content"]))
    rep_jobs = az[:900 if quick else 3000] + pdf[:200 if quick else 600]
    nsub = 8 if quick else 16                      # several shorter histories (validated in parallel), each with its own inputs
    for rnd in range(5 if quick else 8):
        for k, j in enumerate(rep_jobs):
            hid += 1
            jobs.append(dict(j, hid=hid, proj="digest", hist=h + (k % nsub), skey=""))
    # variation block: the same content with ONE argument varied from call to call (level, mode, percentage, layers, security level, option mix,
    # colour scheme) - state remembered under a key that leaves an argument out shows up as a result that differs from the fresh-process one
    h = nhist + nsub
    var = []
    for c in ("01234567", "HELLO WORLD", "hello, world", "1234567890123456789012345"):
        for level in range(4):
            for mode in range(4):
                var.append(gen.enc("qr", onedim.U(c), (level, mode)))
        for mode in range(4):
            for level in range(4):
                var.append(gen.enc("qr", onedim.U(c), (level, mode)))
    for c in (b"Aztec 123", b"\x80\x81 binary", b"x" * 40):
        for pct in (0, 23, 33, 50, 90):
            for req in (0, -2, -4, 2, 3, 4, 5, 9):
                var.append(gen.enc("aztec", list(c), (pct, req)))
    # neighbouring sizes at a fixed (large) layer count: the number of check words changes by one or two from call to call (hundreds of them)
    for layers in (15, 25):
        for n in list(range(118, 100, -1)) + list(range(101, 110)):
            var.append(gen.enc("aztec", [128 + (k * 7 + n) % 100 for k in range(n)], (23, layers)))
    for c in ("PDF417 text 123456", "abc", ""):
        for lv in list(range(9)) + list(range(8, -1, -1)):
            var.append(gen.enc("pdf", onedim.U(c), (lv,)))
    for sym, c in (("c39", "CODE 39"), ("c93", "CODE 93"), ("c39", "a+b"), ("c93", "a+b")):
        for cs in (0, 1, 0):
            for full in (0, 1, 0):
                var.append(gen.enc(sym, onedim.U(c), (cs, full)))
    for c in ("123456", "00", "98765432"):
        for il in (0, 1, 0, 1):
            var.append(gen.enc("25", onedim.U(c), (il,)))
    for api in ("Encode", "EncodeWithoutChecksum", "Encode"):
        var.append(gen.enc("c128", onedim.U("Code128 12345678"), (), api=api))
    colour = []
    for (sym, c, p) in gen.SAMPLES:
        for k in (0, 3, 5, 0):
            colour.append(gen.enc(sym, c if isinstance(c, (list, bytes)) else onedim.U(c), p, api="EncodeWithColor", scheme=C11.scheme(k)))
            colour[-1]["skey"] = json.dumps(colour[-1]["scheme"], sort_keys=True)
            colour.append(gen.enc(sym, c if isinstance(c, (list, bytes)) else onedim.U(c), p))
    # misuse that must stay local: WithColor calls with an incomplete colour scheme (only one field set), dropped unobserved, each followed by plain
    # encodes of every family, which are compared with fresh processes like everything else in this block
    red = dict(t="rgba", v=[200, 0, 0, 255])
    white = dict(t="rgba", v=[255, 255, 255, 255])
    for k, partial in enumerate(("fg", "bg", "model", "zero")):
        for (sym, c, p) in gen.SAMPLES[k::4] + gen.SAMPLES[:2]:
            cc = c if isinstance(c, (list, bytes)) else onedim.U(c)
            poke = gen.enc(sym, cc, p, api="EncodeWithColor", scheme=dict(model="rgba", fg=red, bg=white, partial=partial))
            poke["op"] = "poke"
            colour.append(poke)
            colour.append(gen.enc(sym, cc, p))
    for j in var + colour:
        hid += 1
        jobs.append(dict(j, hid=hid, proj="digest", hist=h, skey=j.get("skey", ""), mustshot=True))
    # many small symbols whose result is compared with whole processes run under other GOMAXPROCS values (work split among a number of workers
    # taken from the runtime: ties, remainders and empty pools show for a fraction of the inputs only)
    h += 1
    for k in range(400 if quick else 3000):
        hid += 1
        c = "ITEM-%04d" % k if k % 3 == 0 else ("%d" % (k * 7919) if k % 3 == 1 else "Lot %d / %c" % (k, 65 + k % 26))
        jobs.append(dict(gen.enc("qr", onedim.U(c), (k % 4, 0)), hid=hid, proj="digest", hist=h, skey="", batchshot=True))
    for k, (sym, c, p) in enumerate(gen.SAMPLES * 3):
        hid += 1
        cc = (c if isinstance(c, (list, bytes)) else onedim.U(c))
        jobs.append(dict(gen.enc(sym, cc, p), hid=hid, proj="digest", hist=h, skey="", batchshot=True))
    return jobs


def add_mutations(evs_so_far, jobs):
    """after the first pass: mutate every byte of every aztec buffer, then re-read the barcode"""
    extra = []
    for e in evs_so_far:
        if e["op"] == "encode" and e["sym"] == "aztec" and e["res"]["kind"] == "ok":
            n = len(e["content"])
            for idx in (range(n) if n <= 12 else [0, n // 2, n - 1]):
                extra.append(dict(op="mutate", buf=e["i"], idx=idx, val=(e["content"][idx] + 7) % 256, hid=e["hid"], hist=e["hist"]))
            extra.append(dict(op="reread", src=e["hid"], proj="digest", hist=e["hist"]))
    return extra


def run(tier):
    chk = vlib.Check("C15", tier)
    quick = tier == "quick"
    chk.add_model([dict(module="MC_Barcode.tla", cfg="MC_Barcode_ok.cfg", workers=4),
                   dict(module="MC_Barcode.tla", cfg="MC_Barcode_alias.cfg", workers=1, expect_violation="Immutable"),
                   dict(module="MC_Barcode.tla", cfg="MC_Barcode_stateful.cfg", workers=1, expect_violation="Deterministic"),
                   dict(module="MC_RSCache.tla", cfg="MC_RSCache_2.cfg", workers=2),
                   dict(module="MC_RSCache.tla", cfg="MC_RSCache_nolock.cfg", workers=1, expect_violation="CacheCorrect")])
    drive = vlib.build_harness(chk.work)
    rng = chk.rng
    nhist, nenc = (3, 250) if quick else (30, 900)
    jobs = c15_jobs(rng, quick, nhist, nenc)
    nhist += (8 if quick else 16) + 2
    # mutation pass needs event indices: run once to learn which aztec encodes succeeded (inputs only), then run the full history in a fresh process
    probe = vlib.run_drive(drive, jobs, chk.work, name="probe")
    full = jobs + add_mutations(probe, jobs)
    evs = vlib.run_drive(drive, full, chk.work, name="hist")
    # one-shots: the same arguments in freshly started processes (cold caches, new map seeds), one process per encode
    enc = [e for e in evs if e["op"] == "encode"]
    must = [e for e in enc if e.get("mustshot")]
    rest = [e for e in enc if not e.get("mustshot")]
    shots = must + rng.sample(rest, min(len(rest), 50 if quick else 800))
    oneshots = []
    for k, e in enumerate(shots):
        gmp = ("1", "2", "3", "5", "7", "16", "64")[k % 7]       # the fresh processes also differ in the number of processors the runtime may use
        sub = vlib.run_drive(drive, [dict(onedim.strip(e), hid=0)], chk.work, name="shot", env={"GOMAXPROCS": gmp})
        o = sub[0]
        o["gmp"] = gmp
        o["op"] = "oneshot"
        o["hist"] = e["hist"]
        o["i"] = 10 ** 6 + k
        o["orig_i"] = e["i"]
        oneshots.append(o)
    batch = [e for e in enc if e.get("batchshot")]
    for gmp in ("3", "5", "2", "1"):
        sub = vlib.run_drive(drive, [dict(onedim.strip(e), hid=0) for e in batch], chk.work, name="batchshot", env={"GOMAXPROCS": gmp})
        for k, (o, e) in enumerate(zip(sub, batch)):
            o["op"] = "oneshot"
            o["hist"] = e["hist"]
            o["i"] = 2 * 10 ** 6 + len(oneshots)
            o["orig_i"] = e["i"]
            o["gmp"] = gmp
            oneshots.append(o)
    by_hist = {}
    for e in evs + oneshots:
        by_hist.setdefault(e["hist"], []).append(e)
    shards = [by_hist[h] for h in sorted(by_hist)]
    acc, bad, st, tr = vlib.validate_traces(chk.work, "TraceHist", "TraceHist.cfg", shards, timeout=3000)
    chk.cov["states"] += st
    chk.cov["transitions"] += tr
    chk.cov["traces_validated_against_impl"] = acc
    chk.cov.update(histories=nhist, encodes=len(enc), rereads=sum(1 for e in evs if e["op"] == "reread"), mutations=sum(1 for e in evs if e["op"] == "mutate"),
                   oneshot_processes=len(oneshots), distinct_argument_tuples=len({json.dumps([e["sym"], e["api"], e["content"], e["p"], e["skey"]]) for e in enc}),
                   families=sorted({e["sym"] for e in enc}))
    seen = set()
    for b in bad:
        ev = b["event"]
        if b["why"] in ("unknown-handle", "unknown-event", "harness-mutate"):
            raise vlib.Inconclusive("harness/generator problem: %s at event %r" % (b["why"], ev.get("i")))
        src = next((e for e in evs if e.get("hid") == ev.get("src") and e["op"] == "encode"), ev) if ev["op"] == "reread" else ev
        k = "%s %s why=%s" % (src.get("sym"), onedim.base_api(src.get("api", "")), b["why"])
        if k in seen:
            continue
        seen.add(k)
        # reproduce: the whole history of that event up to it, in a fresh process (plus its one-shot if that is what differed)
        hist = [onedim.strip(e) | ({"skey": e["skey"]} if "skey" in e else {}) for e in evs if e["hist"] == ev["hist"] and e["i"] <= (ev["i"] if ev["i"] < 10 ** 6 else 10 ** 9)]
        if b["why"] in ("nondeterministic", "fresh-process-differs"):
            # run-to-run variation: the same call repeated many times in up to 8 fresh processes; two different observations reproduce it.
            # If that does not show it, fall through to replaying the whole history (order-dependent state).
            one = dict(onedim.strip(src), skey=src.get("skey", ""), proj="digest", op="encode")
            shown = False
            for attempt in range(8):
                rep = [dict(one, hid=k + 1) for k in range(12)]
                subr = vlib.run_drive(drive, rep, chk.work, name="repro-rep")
                _, badr, _, _ = vlib.validate_traces(chk.work, "TraceHist", "TraceHist.cfg", [subr], timeout=3000)
                if any(x["why"] == "nondeterministic" for x in badr):
                    chk.report(k, "%s: the same call gives different barcodes from one call to the next" % k, dict(jobs=rep, expect="nondeterministic", attempts=8))
                    shown = True
                    break
            if shown:
                continue
        sub = vlib.run_drive(drive, hist, chk.work, name="repro")
        if ev["op"] == "oneshot":
            o = vlib.run_drive(drive, [dict(onedim.strip(ev), op="encode", hid=0)], chk.work, name="shot", env={"GOMAXPROCS": ev.get("gmp", "16")})[0]
            o["op"] = "oneshot"
            sub.append(o)
        _, bad2, _, _ = vlib.validate_traces(chk.work, "TraceHist", "TraceHist.cfg", [sub], timeout=3000)
        if b["why"] not in {x["why"] for x in bad2}:
            # state shared by the whole process (not only by this history): replay every job the original process had run up to that event,
            # in a fresh process, and validate this event's history (plus its one-shot) from that run
            upto = ev.get("orig_i", ev["i"]) if ev["op"] == "oneshot" else ev["i"]
            prefix = full[:upto]
            subp = [e for e in vlib.run_drive(drive, prefix, chk.work, name="repro-proc") if e.get("hist") == ev["hist"]]
            if ev["op"] == "oneshot":
                subp.append(sub[-1])
            _, bad3, _, _ = vlib.validate_traces(chk.work, "TraceHist", "TraceHist.cfg", [subp], timeout=3000)
            if b["why"] not in {x["why"] for x in bad3}:
                raise vlib.Inconclusive("unreproduced rejection: %s" % k)
            chk.report(k, "%s: %s (only after the %d calls the same process made before it)" % (k, b["why"], upto), dict(jobs=prefix, expect=b["why"], hist=ev["hist"],
                       oneshot=(onedim.strip(ev) if ev["op"] == "oneshot" else None), shot_env={"GOMAXPROCS": ev.get("gmp", "16")}))
            continue
        chk.report(k, "%s: %s (history of %d calls%s)" % (k, b["why"], len(hist), "; fresh process with GOMAXPROCS=%s" % ev["gmp"] if ev.get("gmp") else ""),
                   dict(jobs=hist, expect=b["why"], oneshot=(onedim.strip(ev) if ev["op"] == "oneshot" else None), shot_env={"GOMAXPROCS": ev.get("gmp", "16")}))
    chk.sample(dict(history_prefix=[dict(sym=e["sym"], api=e["api"], p=e["p"], content_len=len(e["content"]), pxdigest=e["res"].get("pxdigest", "")[:16]) for e in enc[:6]]))
    chk.assumptions += ["observations are SHA-256 digests of the pixel classes plus every accessor, computed by the Go projection", "non-determinism with probability far below 1/observations is out of reach of a trace-based method"]
    return chk.finish()


def replay(path):
    r = json.load(open(path))["replay"]
    chk = vlib.Check("C15", "quick")
    drive = vlib.build_harness(chk.work)
    hit = []
    for attempt in range(r.get("attempts", 1)):
        evs = vlib.run_drive(drive, r["jobs"], chk.work)
        if r.get("hist") is not None:
            evs = [e for e in evs if e.get("hist") == r["hist"]]
        if r.get("oneshot"):
            o = vlib.run_drive(drive, [dict(r["oneshot"], op="encode", hid=0)], chk.work, name="shot", env=r.get("shot_env"))[0]
            o["op"] = "oneshot"
            evs.append(o)
        _, bad, _, _ = vlib.validate_traces(chk.work, "TraceHist", "TraceHist.cfg", [evs])
        hit = [b for b in bad if b["why"] == r.get("expect", b["why"])]
        if hit:
            break
    for b in hit:
        print("REPRODUCED l=%d why=%s" % (b["l"], b["why"]))
    return 1 if hit else 0
