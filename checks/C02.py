"""C02 - DataMatrix: every accepted content decodes back to exactly that content.
model phase : Annex F placement state machine for all 24 sizes (every module assigned exactly once or the fixed pattern), size-table laws,
              encoder model of ASCII encodation + 253-state padding || reader automaton over class strings (MC_DM)
trace valid.: every image is read by the reference reader of DM.tla (TraceDM)"""
import vlib, onedim, gen, encconf

NDATA = [3, 5, 8, 12, 18, 22, 30, 36, 44, 62, 86, 114, 144, 174, 204, 280, 368, 456, 576, 696, 816, 1050, 1304, 1558]


def recipe(rng, kind, ncw):
    """content whose ASCII encodation has exactly ncw codewords (inputs only)"""
    if kind == 0:      # digit pairs (+ one letter if needed)
        return bytes(rng.choice(b"0123456789") for _ in range(2 * ncw))
    if kind == 1:      # letters / punctuation
        return bytes(rng.choice(b"ABCxyz !?/:") for _ in range(ncw))
    out = bytearray()  # high bytes (2 codewords each) mixed with ASCII
    left = ncw
    while left > 0:
        if left >= 2 and rng.random() < 0.6:
            out.append(rng.randrange(128, 256))
            left -= 2
        else:
            out.append(rng.choice(b"ab1 Z"))
            if len(out) >= 2 and 48 <= out[-1] <= 57 and 48 <= out[-2] <= 57:
                out[-1] = 97
            left -= 1
    return bytes(out)


def dm_jobs(rng, quick):
    jobs = []

    def add(c, **kw):
        jobs.append(gen.enc("dm", c if isinstance(c, (bytes, list)) else onedim.U(c), (), **kw))
    for c in gen.magic_contents(rng):
        add(c)
    counts = set()
    for i, n in enumerate(NDATA):
        counts |= {n, (NDATA[i - 1] + 1) if i else 1}
    if not quick:
        counts |= set(range(0, 1559, 7)) | set(range(0, 60))
    for n in sorted(counts):
        kinds = (0, 1, 2) if (not quick or n <= 204) else (rng.randrange(3),)
        for k in kinds:
            add(recipe(rng, k, n))
    add("")
    for b in range(0, 256, 3 if quick else 1):
        add(bytes([b]))
        add(b"A" + bytes([b]) + b"1")
    add(bytes(range(256)))
    for n in range(1, 9):       # digit runs of odd / even length at every alignment
        for pre in ("", "A", "AB", "\x80"):
            add(pre.encode("latin-1") + b"123456789"[:n] + b"z")
    for n in (1559, 1560, 3200):
        add(recipe(rng, 1, n))
    add(recipe(rng, 0, 1559))
    for _ in range(40 if quick else 1500):
        n = rng.randint(0, rng.choice([5, 20, 60, 200] + ([] if quick else [600, 1558])))
        add(bytes(rng.choice([rng.randrange(256), rng.choice(b"0123456789"), rng.choice(b"abcXYZ ")]) for _ in range(n)))
    return jobs


def wanted(ev, tag):
    return ev.get("sym") == "dm" and onedim.is_roundtrip(tag)


def dm_cov(chk, extras):
    seen = set()
    for x in extras:
        for t in x.get("seen", []):
            seen.add((t[0], tuple(t[1]), t[2], t[3]))
    chk.cov["sizes_decoded"] = sorted({NDATA[t[0] - 1] for t in seen})
    chk.cov["sizes_decoded_count"] = len({t[0] for t in seen})
    chk.cov["corner_cases_decoded"] = sorted({c for t in seen for c in t[1]})
    chk.cov["fixed_pattern_decoded"] = any(t[2] for t in seen)
    chk.cov["padded_and_unpadded"] = sorted({t[3] for t in seen})
    return seen


def run(tier):
    chk = vlib.Check("C02", tier)
    quick = tier == "quick"
    chk.add_model([dict(module="MC_DM.tla", cfg="MC_DM_quick.cfg" if quick else "MC_DM_thorough.cfg", workers=8, timeout=3000, heap="6g")])
    drive = vlib.build_harness(chk.work)
    jobs = dm_jobs(chk.rng, quick)
    # encoder-model conformance (tools/encconf.py): encodeText / addPadding against DMEnc over MC_DM's state space
    wrong, drift = encconf.conformance(chk, "dm", quick)
    for c in wrong + drift:
        jobs.append(gen.enc("dm", list(c["content"]), ()))
    evs, extras = onedim.judge(chk, drive, jobs, "TraceDM", "TraceDM.cfg", 12 if quick else 16, wanted, heap="5g", timeout=6000)
    ok = [e for e in evs if e["res"]["kind"] == "ok"]
    chk.cov["symbols_decoded"] = len(ok)
    chk.cov["rejected_inputs"] = len(evs) - len(ok)
    chk.cov["modules_read"] = sum(e["res"]["w"] ** 2 for e in ok)
    dm_cov(chk, extras)
    ex = next(e for e in ok if e["res"]["w"] == 12)
    chk.sample(dict(content=bytes(ex["content"]).decode("latin-1"), rows=["".join(map(str, r)) for r in ex["res"]["px"]]))
    chk.cov["coverage_shortfall"] = chk.cov["sizes_decoded_count"] < 24
    chk.assumptions += ["DataMatrix size table written from ISO/IEC 16022 (laws checked in MC_DM)", "144x144: check words of block b at positions b, b+10, ... as in the ISO reference encoder"]
    return chk.finish()


def replay(path):
    return onedim.replay_generic("C02", path, "TraceDM", "TraceDM.cfg", heap="5g")
