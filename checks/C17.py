"""C17 - Galois-field and Reed-Solomon utilities are algebraically correct.
model phase : field laws for all six library fields (MC_GF), RSCache (history/interleaving independence, negative model)
trace valid.: recorded Multiply/Divide/Invers rows, polynomial ops and RS encoder histories validated by TraceGF"""
import json, os
import vlib

FIELDS = [[19, 16, 1], [67, 64, 1], [301, 256, 1], [285, 256, 0], [1033, 1024, 1], [4201, 4096, 1]]


def cover(size, rng, k):
    s = {0, 1, 2, 3, size - 1, size - 2, size // 2, size // 2 - 1}
    while len(s) < min(k, size):
        s.add(rng.randrange(size))
    return sorted(s)


def gen_jobs(rng, quick):
    jobs = []
    hist = 0
    for f in FIELDS:
        size = f[1]
        full = size <= 256 or (size <= 1024 and not quick)
        rows = range(size) if full else cover(size, rng, 48 if quick else 256)
        for a in rows:
            bs = list(range(size)) if full else cover(size, rng, 64 if quick else size)
            nz = [b for b in bs if b != 0]
            jobs.append(dict(op="gf", field=f, call="mulrow", a=[a], b=bs, hist=hist))
            jobs.append(dict(op="gf", field=f, call="divrow", a=[a], b=nz, hist=hist))
            if a % 16 == 0:
                jobs.append(dict(op="gf", field=f, call="addrow", a=[a], b=bs, hist=hist))
            hist += 1
        jobs.append(dict(op="gf", field=f, call="invrow", a=[0], b=list(range(1, size)), hist=hist))
        hist += 1
        # polynomials
        def rp(maxdeg, allow_zero=True):
            n = rng.randint(0, maxdeg) + 1
            c = [rng.randrange(size) for _ in range(n)]
            r = rng.random()
            if r < 0.15:
                c = [0] * rng.randint(0, 3) + c        # leading zeros
            if allow_zero and r > 0.93:
                c = [0] * rng.randint(1, 3)
            return c
        for _ in range(40 if quick else 400):
            a, b = rp(24), rp(24)
            jobs.append(dict(op="gf", field=f, call=rng.choice(["padd", "pmul"]), a=a, b=b, hist=hist))
            jobs.append(dict(op="gf", field=f, call="pmono", a=rp(20), b=[rng.randint(0, 8), rng.randrange(size)], hist=hist))
            dv = rp(12, allow_zero=False)
            while all(x == 0 for x in dv):
                dv = rp(12, allow_zero=False)
            jobs.append(dict(op="gf", field=f, call="pdiv", a=rp(40), b=dv, hist=hist))
            hist += 1
    # Reed-Solomon encoder histories: one encoder object per history, shuffled / increasing / decreasing request orders;
    # every (data, n) is requested again later on the same encoder and on a fresh one.
    obj = 0
    for f in FIELDS:
        size, base = f[1], f[2]
        nmax = min(68, size - 1 - base)
        for order in (["shuffled", "increasing", "decreasing"] if not quick else ["shuffled", "decreasing"]):
            obj += 1
            hist += 1
            ns = list(range(1, nmax + 1))
            if quick:
                ns = sorted(rng.sample(ns, min(len(ns), 14)) + [1, nmax])
            if order == "shuffled":
                rng.shuffle(ns)
            elif order == "decreasing":
                ns.sort(reverse=True)
            else:
                ns.sort()
            if not quick and size >= 1024 and order == "shuffled":
                ns += [rng.choice([100, 150, 255, 300, 417, 600])] + [rng.randint(69, 600) for _ in range(2)]
            calls = []
            for n in ns:
                ln = rng.choice([0, 1, 2, rng.randint(1, max(1, min(size - 1 - n, 80)))])
                data = [rng.randrange(size) for _ in range(ln)]
                r = rng.random()
                if r < 0.1:
                    data = [0] * ln
                elif r < 0.25 and ln > 1:
                    data[0] = 0
                calls.append(dict(op="rs", obj=obj, field=f, a=data, n=n, hist=hist))
            jobs += calls
            again = rng.sample(calls, min(len(calls), 6))
            jobs += [dict(c) for c in again]
            obj += 1
            jobs += [dict(c, obj=obj) for c in again]      # fresh encoder, cold cache
    # degree sweep on the two large fields (Aztec 10- and 12-bit codewords): every number of check symbols 1..130 (thorough 1..600) with short
    # data on ONE encoder per field, then neighbouring large degrees back and forth (cache growth, and whatever a cache does beyond 255)
    for f in FIELDS:
        size = f[1]
        if size < 1024:
            continue
        obj += 1
        hist += 1
        ns = list(range(1, 131 if quick else 601))
        rng.shuffle(ns)
        ns += [256, 257, 258, 257, 300, 301, 300, 302, 299, 255, 254, 256] + ([] if quick else [600, 601, 599, 512, 513, 511, 1000, 1001])
        if size == 4096:     # the largest Aztec symbols carry more than a thousand check words
            ns += [1023, 1024, 1025, 1026] + ([1500] if quick else [1100, 1500, 1501, 2000, 2048, 2049, 3000])
        for n in ns:
            ln = rng.choice([1, 2, 3])
            data = [rng.randrange(1, size) for _ in range(ln)]
            jobs.append(dict(op="rs", obj=obj, field=f, a=data, n=n, hist=hist))
    return jobs


def key_of(ev, why):
    if ev["op"] == "gf":
        return "gf field=%s call=%s why=%s" % (",".join(map(str, ev["field"])), ev["call"], why)
    return "rs field=%s why=%s" % (",".join(map(str, ev["field"])), why)


def run(tier):
    chk = vlib.Check("C17", tier)
    quick = tier == "quick"
    chk.add_model([
        dict(module="MC_GF.tla", cfg="MC_GF_quick.cfg" if quick else "MC_GF_thorough.cfg", workers=8, timeout=3000, heap="4g"),
        dict(module="MC_RSCache.tla", cfg="MC_RSCache_2.cfg", workers=2),
        dict(module="MC_RSCache.tla", cfg="MC_RSCache_3.cfg", workers=2),
        dict(module="MC_RSCache.tla", cfg="MC_RSCache_nolock.cfg", workers=1, expect_violation="CacheCorrect"),
    ])
    drive = vlib.build_harness(chk.work)
    jobs = gen_jobs(chk.rng, quick)
    evs = vlib.run_drive(drive, jobs, chk.work)
    shards = vlib.shard(evs, 12 if quick else 16, key=lambda e: e["hist"] if e["op"] == "gf" else -1 - FIELDS.index(e["field"]))
    acc, bad, st, tr = vlib.validate_traces(chk.work, "TraceGF", "TraceGF.cfg", shards, timeout=3000, heap="4g")
    chk.cov["traces_validated_against_impl"] = acc
    chk.cov["states"] += st
    chk.cov["transitions"] += tr
    ops = {}
    pairs = 0
    for e in evs:
        k = e.get("call", "rs.Encode")
        ops[k] = ops.get(k, 0) + 1
        if e["op"] == "gf" and e["call"].endswith("row"):
            pairs += len(e["b"])
    chk.cov["events_by_call"] = ops
    chk.cov["operand_pairs_validated"] = pairs
    chk.cov["rs_max_check_symbols"] = max(e["n"] for e in evs if e["op"] == "rs")
    chk.sample({k: (v if not isinstance(v, list) or len(v) < 12 else v[:12] + ["..."]) for k, v in
                next(e for e in evs if e["op"] == "rs" and len(e["a"]) > 2).items() if k != "res"})
    chk.sample(dict(pdiv={k: v for k, v in next(e for e in evs if e.get("call") == "pdiv").items() if k in ("field", "a", "b", "res")}))
    seen = set()
    for b in bad:
        k = key_of(b["event"], b["why"])
        if k in seen:
            continue
        seen.add(k)
        # reproduce in a fresh process: a field/polynomial call alone; a Reed-Solomon call with the whole request history of ITS encoder
        # object (the property quantifies over request orders, so a defect may need the earlier requests to show)
        job = {kk: vv for kk, vv in b["event"].items() if kk not in ("res", "i")}
        hist = [job]
        if b["event"]["op"] == "rs":
            hist = [{kk: vv for kk, vv in e.items() if kk not in ("res", "i")} for e in evs[:b["event"]["i"]]
                    if e["op"] == "rs" and (e["obj"] == job["obj"] or (b["why"] == "history-dependent" and e["field"] == job["field"]))]
        sub = vlib.run_drive(drive, hist, chk.work, name="repro")
        _, bad2, _, _ = vlib.validate_traces(chk.work, "TraceGF", "TraceGF.cfg", [sub])
        if not bad2:
            raise vlib.Inconclusive("unreproduced rejection: %s" % k)
        ev = bad2[0]["event"]
        detail = ""
        if ev["op"] == "gf" and ev["call"].endswith("row"):
            idx = [i for i, v in enumerate(ev["res"]["out"]) if v == -1][:1]
            if idx:
                detail = " e.g. a=%d b=%d" % (ev["a"][0], ev["b"][idx[0]])
        chk.report(key_of(ev, bad2[0]["why"]), "%s: %s%s" % (k, bad2[0]["why"], detail), dict(jobs=hist))
    chk.assumptions += ["TLC, SANY, CommunityModules (Json, Bitwise, SequencesExt overrides)",
                        "GF(4096) rows are sampled (covering set) rather than all 16.7M pairs; the model phase shows alpha generates the field, "
                        "which makes log-based arithmetic correct for all pairs", "zero divisors and the zero divisor polynomial are outside the domain"]
    return chk.finish()


def replay(path):
    r = json.load(open(path))["replay"]
    chk = vlib.Check("C17", "quick")
    drive = vlib.build_harness(chk.work)
    evs = vlib.run_drive(drive, r["jobs"], chk.work)
    _, bad, _, _ = vlib.validate_traces(chk.work, "TraceGF", "TraceGF.cfg", [evs])
    for b in bad:
        print("REPRODUCED l=%d why=%s %s" % (b["l"], b["why"], key_of(b["event"], b["why"])))
    return 1 if bad else 0
