"""C06 - EAN-8/EAN-13: digits, parity and check digit are encoded and validated.
model phase : check-digit automaton explored for all digit strings through a VIEW; reader inverts the standard's drawing rule
trace valid.: accept/reject outcome, completed number, kind and decoded symbol of every recorded call (Trace1D)"""
import vlib, onedim

def wanted(ev, tag):
    if ev["op"] == "eansweep":
        return True
    return ev.get("sym") == "ean" and (onedim.is_roundtrip(tag) or tag in ("reject-representable", "accept-unrepresentable", "content", "metadata"))

def run(tier):
    chk = vlib.Check("C06", tier)
    quick = tier == "quick"
    chk.add_model([dict(module="MC_EAN.tla", cfg="MC_EAN.cfg", workers=4)])
    drive = vlib.build_harness(chk.work)
    jobs = onedim.ean_jobs(chk.rng, quick)
    # compact acceptance table of EAN-8: appended digit and accepted final digits for 7-digit prefixes
    # (quick: 4 seeded ranges of 2 500 prefixes; thorough: all 10^7 prefixes = 10^8 eight-digit strings, in 400 ranges)
    if quick:
        sweeps = [dict(op="eansweep", a=[chk.rng.randrange(0, 10 ** 7 - 2500), 2500], content=[], p=[]) for _ in range(4)]
    else:
        sweeps = [dict(op="eansweep", a=[k * 25000, 25000], content=[], p=[]) for k in range(400)]
    jobs += sweeps
    evs, _ = onedim.judge(chk, drive, jobs, "Trace1D", "Trace1D.cfg", 10 if quick else 16, wanted, timeout=7000)
    chk.cov["ean8_prefixes_swept"] = sum(e["a"][1] for e in evs if e["op"] == "eansweep")
    chk.cov["ean8_strings_decided"] = 11 * chk.cov["ean8_prefixes_swept"]
    chk.cov["exhaustive_ean8"] = chk.cov["ean8_prefixes_swept"] == 10 ** 7
    evs = [e for e in evs if e["op"] == "encode"]
    ok = [e for e in evs if e["res"]["kind"] == "ok"]
    cells13 = {(e["content"][0], pos, e["content"][pos]) for e in ok if len(e["res"]["content"]) == 13 and len(e["content"]) >= 12 for pos in range(1, 12)}
    cells8 = {(pos, e["content"][pos]) for e in ok if len(e["res"]["content"]) == 8 and len(e["content"]) >= 7 for pos in range(7)}
    chk.cov.update(symbols_decoded=len(ok), rejected_inputs=len(evs) - len(ok), ean13_cells_first_pos_digit=len(cells13), ean13_cells_total=1100,
                   ean8_cells_pos_digit=len(cells8), ean8_cells_total=70,
                   input_lengths=sorted({len(e["content"]) for e in evs}))
    chk.sample(dict(code=bytes(ok[0]["content"]).decode(), completed=bytes(ok[0]["res"]["content"]).decode(), modules="".join(map(str, ok[0]["res"]["px"][0]))))
    chk.sample(dict(rejected=[bytes(e["content"]).decode("latin-1") for e in evs if e["res"]["kind"] == "error"][:6]))
    chk.cov["coverage_shortfall"] = len(cells13) < 1100 or len(cells8) < 70
    chk.assumptions += ["EAN L patterns and parity table written from ISO/IEC 15420 (R = complement, G = reverse of R; distinctness ASSUMEd)",
                        "the 10^7-prefix / 10^8-string EAN-8 acceptance table is exhaustive only in the thorough tier (sampled ranges in the quick tier); 13-digit acceptance is sampled"]
    return chk.finish()

def replay(path):
    return onedim.replay_generic("C06", path, "Trace1D", "Trace1D.cfg")
