"""C09 - Scale: integer, centred, distortion-free enlargement or an error.
model phase : ScaleAlgo (transcription of the code's arithmetic) satisfies Scale (the property) on a window of sizes incl. chains;
              Apalache proves the factor/offset arithmetic for all naturals (ScaleLemma)
trace valid.: every pixel of every recorded Scale result is validated by TraceScale against the table of issued barcodes"""
import json, os, shutil, subprocess
import vlib, gen

FILLS = [None, dict(t="rgba", v=[1, 2, 3, 4]), dict(t="nrgba", v=[9, 9, 9, 200]), dict(t="gray16", v=[65535]), dict(t="gray16", v=[0])]


def apalache(chk):
    d = os.path.join(chk.work, "apalache")
    os.makedirs(d)
    shutil.copy(os.path.join(vlib.SPEC, "obj", "ScaleLemma.tla"), d)
    try:
        p = subprocess.run(["apalache-mc", "check", "--length=0", "--inv=Inv", "--out-dir=" + os.path.join(d, "out"), "ScaleLemma.tla"], cwd=d,
                           capture_output=True, text=True, timeout=300, env=dict(os.environ, JVM_ARGS="-Xmx2g -Djava.io.tmpdir=" + d))
    except subprocess.TimeoutExpired:
        return "timeout"
    if "The outcome is: NoError" in p.stdout:
        return "proved"
    if "Error" in p.stdout and "violat" in p.stdout:
        raise vlib.Inconclusive("spec error: ScaleLemma does not hold\n" + p.stdout[-2000:])
    return "not-run: " + (p.stdout + p.stderr)[-200:].replace("\n", " ")


def gen_jobs(rng, quick):
    jobs, hid, hist = [], 0, 0

    def new_hid():
        nonlocal hid
        hid += 1
        return hid

    def requests(ow, oh, dim, full_window):
        if full_window:
            ws = range(1, 3 * ow + 3)
            hs = range(1, 3 * oh + 3) if dim == 2 else [1, 2, 5]
            return [(w, h) for w in ws for h in hs]
        out = []
        for q in range(0, 4):
            for r in sorted({0, 1, ow // 2, ow - 1}):
                w = q * ow + r
                if w >= 1:
                    if dim == 2:
                        for hq in sorted({0, 1, q, 3}):
                            out.append((w, max(1, hq * oh + rng.choice([0, 1, oh // 2, oh - 1]))))
                    else:
                        out.append((w, rng.choice([1, 2, 7])))
        return out

    def chain(src, ow, oh, dim, depth):
        # scale the result of a scale again (through the handle table), 1..depth more times
        w, h = ow, oh
        cur = src
        for k in range(depth):
            f = rng.choice([1, 1, 2, 3])
            w2 = w * f + rng.randint(0, w)
            h2 = (h * f + rng.randint(0, h)) if dim == 2 else rng.randint(1, 4)
            if rng.random() < 0.15:
                w2 = max(1, w - 1)       # a refused link ends the chain
            nh = new_hid()
            j = dict(op="scale", src=cur, w=w2, hh=h2, hid=nh, hist=hist)
            fill = rng.choice(FILLS)
            if fill is not None:
                j["fill"] = fill
            jobs.append(j)
            if w2 < w or (dim == 2 and h2 < h):
                break
            cur, w, h = nh, w2, h2
        jobs.append(dict(op="reread", src=src, hist=hist))

    # (a) synthetic sources: shapes no encoder produces
    shapes = [(1, 1, 2), (1, 1, 1), (2, 3, 2), (3, 2, 2), (5, 1, 1), (7, 7, 2), (4, 1, 1), (3, 5, 2)]
    if not quick:
        shapes += [(ow, oh, 2) for ow in (1, 2, 6, 11) for oh in (1, 4, 9)] + [(13, 1, 1), (2, 1, 1)]
    for (ow, oh, dim) in shapes:
        for hasscheme, hascs in ((True, True), (False, False)) if quick else ((True, True), (False, False), (True, False), (False, True)):
            hist += 1
            h = new_hid()
            px = [[rng.randint(0, 1) for _ in range(ow)] for _ in range(oh)]
            px[0][0], px[-1][-1] = 1, 1 if ow * oh > 1 else px[-1][-1]
            jobs.append(dict(op="synth", dim=dim, px=px, hasscheme=hasscheme, hascs=hascs, cs=rng.randint(0, 102), hid=h, hist=hist))
            reqs = requests(ow, oh, dim, True)
            if quick and len(reqs) > 60:
                reqs = rng.sample(reqs, 60)
            for (w, hh) in reqs:
                j = dict(op="scale", src=h, w=w, hh=hh, hid=new_hid(), hist=hist)
                fill = rng.choice(FILLS)
                if fill is not None:
                    j["fill"] = fill
                jobs.append(j)
            for _ in range(2 if quick else 6):
                chain(h, ow, oh, dim, 3)
    # (b) one real symbol of every family, with a plain and a coloured scheme
    for k, (sym, content, p) in enumerate(gen.SAMPLES):
        for scheme in ([None] if quick and k % 2 else [None, gen.SCHEMES[3 + k % 5]]):
            if sym == "aztec" and scheme is not None:
                pass
            hist += 1
            h = new_hid()
            jobs.append(gen.enc(sym, content, p, api="Encode" if scheme is None else "EncodeWithColor", scheme=scheme, hid=h, hist=hist, tag="source"))
            jobs.append(dict(op="srcreq", src=h, hist=hist))   # placeholder: requests are sized after the source's size is known
    # (d) large factors (far beyond three times the symbol): long thin synthetic sources keep the pictures small while pixel offsets and
    # factor x offset products get large (reciprocal / fixed-point shortcuts in the index arithmetic go wrong there first)
    big = [(100, 1, 1, [41, 97] if quick else [27, 41, 45, 64, 97, 127, 251, 700]), (40, 1, 2, [60] if quick else [37, 60, 97]), (1, 40, 2, [60] if quick else [37, 60, 97])]
    if not quick:
        big += [(30, 2, 2, [50]), (95, 1, 1, [33, 55])]
    for (ow, oh, dim, factors) in big:
        hist += 1
        h = new_hid()
        px = [[rng.randint(0, 1) for _ in range(ow)] for _ in range(oh)]
        px[0][0], px[-1][-1] = 1, 1
        jobs.append(dict(op="synth", dim=dim, px=px, hasscheme=True, hascs=False, cs=0, hid=h, hist=hist))
        for f in factors:
            w = ow * f + rng.randrange(f)
            hh = rng.choice([1, 2]) if dim == 1 else oh * f + rng.randrange(f)
            j = dict(op="scale", src=h, w=w, hh=hh, hid=new_hid(), hist=hist)
            fill = rng.choice(FILLS)
            if fill is not None:
                j["fill"] = fill
            jobs.append(j)
    # (c) an unsupported dimensionality
    hist += 1
    h = new_hid()
    jobs.append(dict(op="synth", dim=3, px=[[1, 0], [0, 1]], hasscheme=False, hascs=False, cs=0, hid=h, hist=hist))
    jobs.append(dict(op="scale", src=h, w=10, hh=10, hid=new_hid(), hist=hist))
    return jobs, hid


def run(tier):
    chk = vlib.Check("C09", tier)
    quick = tier == "quick"
    chk.add_model([dict(module="MC_ScaleAlgo.tla", cfg="MC_ScaleAlgo_quick.cfg" if quick else "MC_ScaleAlgo_thorough.cfg", workers=8, timeout=3000)])
    chk.cov["apalache_ScaleLemma"] = vlib.apalache(chk.work, "obj/ScaleLemma.tla")
    drive = vlib.build_harness(chk.work)
    jobs, hid = gen_jobs(chk.rng, quick)
    # pass 1: create real sources to learn their sizes (sizes are inputs to the request generator, not expectations)
    srcjobs = [j for j in jobs if j.get("tag") == "source"]
    sizes = {}
    for e in vlib.run_drive(drive, srcjobs, chk.work, name="sizes"):
        if e["res"]["kind"] != "ok":
            raise vlib.Inconclusive("sample source not accepted: %s %r" % (e["sym"], e["res"]))
        sizes[e["hid"]] = (e["res"]["w"], e["res"]["hh"], e["res"]["mdim"])
    final = []
    rng = chk.rng
    for j in jobs:
        if j["op"] != "srcreq":
            final.append(j)
            continue
        ow, oh, dim = sizes[j["src"]]
        reqs = set()
        for q in range(0, 4):
            for r in {0, 1, ow // 2, ow - 1}:
                w = q * ow + r
                if w >= 1:
                    hh = max(1, rng.choice([0, 1, q, 3]) * oh + rng.choice([0, 1, oh - 1])) if dim == 2 else rng.choice([1, 2, 9])
                    reqs.add((w, hh))
        reqs = sorted(reqs)
        if quick:
            reqs = rng.sample(reqs, min(len(reqs), 7 if ow > 60 else 12))
        cur = None
        for (w, hh) in reqs:
            hid += 1
            jj = dict(op="scale", src=j["src"], w=w, hh=hh, hid=hid, hist=j["hist"])
            fill = rng.choice(FILLS)
            if fill is not None:
                jj["fill"] = fill
            final.append(jj)
            if w >= ow and (dim == 1 or hh >= oh) and w <= 2 * ow:
                cur = (hid, w, hh)
        if cur:   # chain: scale a scaled real symbol twice more
            for k in range(2):
                hid += 1
                w2, h2 = cur[1] + rng.randint(0, cur[1]), (cur[2] + rng.randint(0, cur[2]) if dim == 2 else 3)
                final.append(dict(op="scale", src=cur[0], w=w2, hh=h2, hid=hid, hist=j["hist"]))
                cur = (hid, w2, h2)
        final.append(dict(op="reread", src=j["src"], hist=j["hist"]))
    # (e) sources of more than 10^9 pixels a side (an already scaled barcode), recorded without their pixels: a request one pixel short of the
    # source must be refused, one of exactly its size granted (factor arithmetic in floating point loses the last unit there)
    for (w0, h0, dim) in ((100, 1, 1), (21, 21, 2)):
        for big in (2000000003, 1000000007, 2147483000):
            hist_id = 5000000 + len(final)
            hid += 1
            src = hid
            final.append(dict(op="synth", dim=dim, px=[[(x + y) % 2 for x in range(w0)] for y in range(h0)], hasscheme=False, hascs=False, cs=0, hid=src, hist=hist_id))
            hid += 1
            huge = hid
            final.append(dict(op="scale", src=src, w=big, hh=(1 if dim == 1 else big), hid=huge, hist=hist_id, proj="outcome"))
            for dw in (-1, 0, 1):
                hid += 1
                final.append(dict(op="scale", src=huge, w=big + dw, hh=(1 if dim == 1 else big), hid=hid, hist=hist_id, proj="outcome"))
            if dim == 2:
                hid += 1
                final.append(dict(op="scale", src=huge, w=big, hh=big - 1, hid=hid, hist=hist_id, proj="outcome"))
    evs = vlib.run_drive(drive, final, chk.work)
    shards = vlib.shard(evs, 12 if quick else 16, key=lambda e: e["hist"])
    acc, bad, st, tr = vlib.validate_traces(chk.work, "TraceScale", "TraceScale.cfg", shards, timeout=3000, heap="4g")
    chk.cov["traces_validated_against_impl"] = acc
    chk.cov["states"] += st
    chk.cov["transitions"] += tr
    sc = [e for e in evs if e["op"] == "scale"]
    chk.cov["scale_results"] = len(sc)
    chk.cov["scale_ok"] = sum(1 for e in sc if e["res"]["kind"] == "ok")
    chk.cov["scale_refused"] = sum(1 for e in sc if e["res"]["kind"] == "error")
    chk.cov["pixels_checked"] = sum(e["res"]["w"] * e["res"]["hh"] for e in sc if e["res"]["kind"] == "ok" and "px" in e["res"])
    chk.cov["giant_requests_judged_without_pixels"] = sum(1 for e in sc if e.get("proj") == "outcome")
    chk.cov["chained_sources"] = len({e["src"] for e in sc} & {e["hid"] for e in sc})
    chk.cov["real_symbol_sources"] = len(sizes)
    ex = next(e for e in sc if e["res"]["kind"] == "ok" and "px" in e["res"] and e["res"]["w"] * e["res"]["hh"] < 80)
    chk.sample(dict(scale=dict(src=ex["src"], w=ex["w"], hh=ex["hh"], fill=ex.get("fill"), px=ex["res"]["px"], reflist=ex["res"]["reflist"])))
    seen = set()
    for b in bad:
        ev = b["event"]
        if b["why"] == "unknown-handle":
            raise vlib.Inconclusive("generator referenced a source that was not created")
        src = next((e for e in evs if e.get("hid") == ev.get("src")), None)
        k = "scale why=%s srcdim=%s" % (b["why"], src["res"].get("mdim") if src else "?")
        if k in seen:
            continue
        seen.add(k)
        # reproduce the history of this event alone in a fresh process
        hist = [{kk: vv for kk, vv in e.items() if kk not in ("res", "i")} for e in evs if e["hist"] == ev["hist"] and e["i"] <= ev["i"]]
        sub = vlib.run_drive(drive, hist, chk.work, name="repro")
        _, bad2, _, _ = vlib.validate_traces(chk.work, "TraceScale", "TraceScale.cfg", [sub])
        if not bad2:
            raise vlib.Inconclusive("unreproduced rejection: %s" % k)
        chk.report(k, "Scale(%dx%d source, %d, %d): %s" % (src["res"]["w"] if src else -1, src["res"]["hh"] if src else -1, ev.get("w"), ev.get("hh"), b["why"]),
                   dict(jobs=hist))
    chk.assumptions += ["TLC/SANY/CommunityModules; Apalache for the unbounded arithmetic lemma", "Go projection: pixel colour classes by == against the reference colour list",
                        "sources with non-zero Bounds().Min are outside the property (no encoder produces them)"]
    return chk.finish()


def replay(path):
    r = json.load(open(path))["replay"]
    chk = vlib.Check("C09", "quick")
    drive = vlib.build_harness(chk.work)
    evs = vlib.run_drive(drive, r["jobs"], chk.work)
    _, bad, _, _ = vlib.validate_traces(chk.work, "TraceScale", "TraceScale.cfg", [evs])
    for b in bad:
        print("REPRODUCED l=%d why=%s w=%s hh=%s" % (b["l"], b["why"], b["event"].get("w"), b["event"].get("hh")))
    return 1 if bad else 0
