"""C11 - Rendering contract: bounds, two colours, colour scheme, metadata, content.
model phase : handle-table / contract invariants are part of every family's trace specification (Contract.tla); MC_ScaleAlgo covers metadata forwarding
trace valid.: ContractTags conjuncts (bounds, colours, scheme, model, metadata), Content(), size validity and 'module pattern does not depend on the
              colour scheme' (state variable memo, keyed without the scheme) on all eleven families x plain / WithColor x colour schemes"""
import vlib, onedim, gen
import C01, C02

TAGS = ("bounds", "colours", "scheme", "model", "metadata", "content", "structure-size", "pattern-depends-on-scheme-or-history")
NAMED = {"s8": "gray", "s16": "gray16", "s24": "rgba"}


def scheme(i):
    s = dict(gen.SCHEMES[i % len(gen.SCHEMES)])
    if "name" in s:
        s["model"] = NAMED[s["name"]]
    return s


def rnd_scheme(rng):
    t = rng.choice(["gray", "gray16", "rgba", "nrgba", "cmyk", "rgba64"])
    def col():
        if t == "gray":
            return dict(t=t, v=[rng.randrange(256)])
        if t == "gray16":
            return dict(t=t, v=[rng.randrange(65536)])
        if t == "rgba64":
            return dict(t=t, v=[rng.randrange(65536) for _ in range(4)])
        return dict(t=t, v=[rng.randrange(256) for _ in range(4)])
    fg, bg = col(), col()
    while fg == bg:
        bg = col()
    return dict(model=rng.choice([t, t, "rgba", "gray"]), fg=fg, bg=bg)


def c11_jobs(rng, quick):
    jobs = []
    contents = list(gen.SAMPLES)
    # representative contents of every symbol size class
    for v in ([1, 2, 7, 14, 21] if quick else [1, 2, 6, 7, 10, 14, 20, 21, 27, 28, 34, 35, 40]):
        contents.append(("qr", C01.filler(rng, 4, C01.cap(v, 1, 4), 1), (1, 3)))
    for n in ([3, 44, 62, 204, 280] if quick else C02.NDATA):
        contents.append(("dm", C02.recipe(rng, 1, n), ()))
    for req in ([-1, -4, 1, 5, 12] if quick else list(range(-4, 0)) + list(range(1, 33, 3)) + [12, 27]):
        contents.append(("aztec", "az" * 3, (23, req)))
    for lv, n in ((0, 5), (2, 60), (5, 300), (8, 40)):
        contents.append(("pdf", "".join(rng.choice("abc DEF") for _ in range(n)), (lv,)))
    contents += [("c128", "x", ()), ("c128", "A" * 80, ()), ("c39", "", (0, 0)), ("c39", "a b", (1, 1)), ("c93", "A+b", (1, 1)), ("c93", "", (0, 0)), ("c93", "a$%+/z", (1, 1)), ("c93", "$%+/", (0, 1)), ("c39", "a$%+/z", (0, 1)), ("c39", "$%+/-. ", (1, 0)),
                 ("codabar", "AB", ()), ("ean", "1234567", ()), ("ean", "123456789012", ()), ("25", "1", (0,)), ("25", "12", (1,))]
    for k, (sym, content, p) in enumerate(contents):
        c = content if isinstance(content, (bytes, list)) else onedim.U(content)
        jobs.append(gen.enc(sym, c, p))
        picks = [scheme(k), scheme(k + 3), rnd_scheme(rng)] if (not quick or k < len(gen.SAMPLES) + 3) else [scheme(k)]
        for s in picks:
            jobs.append(gen.enc(sym, c, p, api="EncodeWithColor", scheme=s))
        if sym == "c128":
            jobs.append(gen.enc(sym, c, p, api="EncodeWithoutChecksum"))
            jobs.append(gen.enc(sym, c, p, api="EncodeWithoutChecksumWithColor", scheme=scheme(k + 1)))
    # misuse that must stay local: a WithColor call with an incomplete colour scheme (dropped unobserved), then the plain call: black on white
    red = dict(t="rgba", v=[200, 0, 0, 255])
    white = dict(t="rgba", v=[255, 255, 255, 255])
    for k, (sym, content, p) in enumerate(gen.SAMPLES):
        c = content if isinstance(content, (bytes, list)) else onedim.U(content)
        poke = gen.enc(sym, c, p, api="EncodeWithColor", scheme=dict(model="rgba", fg=red, bg=white, partial=("fg", "bg", "model", "zero")[k % 4]))
        poke["op"] = "poke"
        jobs.append(poke)
        jobs.append(gen.enc(sym, c, p))
    return jobs


def wanted(ev, tag):
    return tag in TAGS


def run(tier):
    chk = vlib.Check("C11", tier)
    quick = tier == "quick"
    chk.add_model([dict(module="MC_ScaleAlgo.tla", cfg="MC_ScaleAlgo_quick.cfg", workers=4)])
    drive = vlib.build_harness(chk.work)
    jobs = c11_jobs(chk.rng, quick)
    evs, _ = onedim.judge_multi(chk, drive, jobs, wanted, nshards=12 if quick else 16)
    evs = [e for e in evs if e.get("op") != "poke"]
    ok = [e for e in evs if e["res"]["kind"] == "ok"]
    if len(ok) < len(evs):
        bad = next(e for e in evs if e["res"]["kind"] != "ok")
        raise vlib.Inconclusive("generator: a contract sample was not accepted: %s %r" % (bad["sym"], bad["res"]))
    chk.cov["barcodes_checked"] = len(ok)
    chk.cov["families_x_api"] = sorted({"%s.%s" % (e["sym"], e["api"]) for e in ok})
    chk.cov["scheme_models"] = sorted({e["scheme"]["model"] for e in ok if "scheme" in e})
    chk.cov["pixels_checked"] = sum(e["res"]["w"] * e["res"]["hh"] for e in ok)
    ex = next(e for e in ok if "scheme" in e and e["sym"] == "ean")
    chk.sample(dict(sym=ex["sym"], scheme=ex["scheme"], reported=dict(fg=ex["res"]["sfg"], bg=ex["res"]["sbg"], model=ex["res"]["smodel"], ColorModel=ex["res"]["model"]),
                    bounds=[ex["res"]["minx"], ex["res"]["miny"], ex["res"]["w"], ex["res"]["hh"]], kind=ex["res"]["mkind"]))
    chk.assumptions += ["a pixel counts as foreground/background iff At(x,y) == the scheme's colour value (Go interface equality)", "ColorModel() is compared by identity with the standard library's models"]
    return chk.finish()


def replay(path):
    return onedim.replay_multi("C11", path)
