"""Shared machinery of the checks that judge encode events with a monitor-style trace spec:
run jobs -> events -> TLC(Trace*) -> bad tags -> per-property filtering -> reproduction in a fresh process."""
import json, os
import vlib, gen

FNC = ["ñ", "ò", "ó", "ô"]


def U(s):
    """content bytes of a Go string literal given as Python str (UTF-8)."""
    return list(s.encode("utf-8"))


def base_api(api):
    return api.replace("WithColor", "") or "Encode"


def key_of(ev, tag):
    extra = ""
    if ev.get("sym") in ("ean", "aztec"):
        extra = " len=%d" % len(ev["content"])
    if ev["op"] == "addchecksum":
        return "twooffive.AddCheckSum why=%s" % tag
    if ev["op"] == "eansweep":
        return "ean sweep why=%s" % tag
    return "%s %s p=%s%s why=%s" % (ev.get("sym"), base_api(ev.get("api", "")), ",".join(map(str, ev.get("p", []))), extra, tag)


def strip(ev):
    return {k: v for k, v in ev.items() if k not in ("res", "i", "runes")}



def reproduce_with_history(chk, drive, evs, ev, why, module, cfg, heap, timeout=6000, pre=None, base_env=None):
    """The rejection of ev is not reproducible alone: replay everything the original process had run up to it (same projections, so the same
    allocation pattern) in a fresh process and validate only ev (preceded by the events `pre` of its own pair, if any). State kept in
    sync.Pool-like caches is dropped by the garbage collector, so a second attempt runs with GOGC=off. Returns the replay object or None."""
    prefix = [strip(e) for e in evs if e["i"] <= ev["i"]]
    npre = len(pre or [])
    for attempt, extra in enumerate((None, {"GOGC": "off"}, {"GOGC": "off", "GOMAXPROCS": "1"})):
        env = dict(base_env or {}, **(extra or {})) or None
        sub = vlib.run_drive(drive, prefix, chk.work, name="repro-prefix", env=env)
        tail = [e for e in sub if pre and e["i"] in {x["i"] for x in pre}] + sub[-1:]
        _, bad3, _, _ = vlib.validate_traces(chk.work, module, cfg, [tail], heap=heap, timeout=timeout)
        if (len(tail), why) in {(b["l"], b["why"]) for b in bad3}:
            return dict(jobs=prefix, expect=why, module=module, last_only=True, keep=[x["i"] for x in (pre or [])], env=env or {})
    return None


def error_path_jobs(evs, n):
    """Refused calls followed at once by an accepted call of the same kind: what a failed call leaves behind (a buffer returned to a pool half
    filled, a partially updated table) must not leak into the next barcode. Built from the outcomes of the main run; executed in a fresh process."""
    enc = [e for e in evs if e.get("op") == "encode" and e.get("res", {}).get("kind") in ("ok", "error")]
    rej = [e for e in enc if e["res"]["kind"] == "error"]
    acc = [e for e in enc if e["res"]["kind"] == "ok"]
    if not rej or not acc:
        return []
    # per entry-point shape (family, api, options): the refused calls with the longest contents (a long valid prefix was processed before the
    # call failed) and a spread of the others
    groups = {}
    for r in rej:
        groups.setdefault((r["sym"], r.get("api"), json.dumps(r.get("p"))), []).append(r)
    per = max(2, (2 * n) // max(1, len(groups)))
    picked = []
    for g in groups.values():
        g.sort(key=lambda e: -len(e.get("content") or []))
        picked += g[:per // 2 + 1] + g[per // 2 + 1::max(1, len(g) // (per // 2 + 1))][:per // 2]
    out = []
    for r in picked[:3 * n]:
        same = [a for a in acc if a["sym"] == r["sym"] and a.get("api") == r.get("api") and a.get("p") == r.get("p")] or [a for a in acc if a["sym"] == r["sym"]]
        if not same:
            continue
        same.sort(key=lambda a: (a["res"].get("w", 0) * a["res"].get("hh", 1), abs(a["i"] - r["i"])))
        a = same[min(len(same) - 1, (r["i"] * 7) % 5)]
        out += [dict(strip(r), proj="outcome"), strip(a)]
    return out


ENVS = [{"GOMAXPROCS": "1"}, {"GOMAXPROCS": "3"}, {"GOMAXPROCS": "7"}, {"GOMAXPROCS": "128"}]     # 128: more processors than any symbol has blocks


def env_subset(evs, n):
    """jobs for the environment stage: an even spread of the accepted calls plus the largest symbols (most blocks / most work to split)"""
    enc = [e for e in evs if e.get("op") == "encode" and e.get("res", {}).get("kind") == "ok"]
    if not enc:
        return []
    spread = enc[::max(1, len(enc) // n)][:n]
    big = []
    for sym in sorted({e["sym"] for e in enc}):          # the largest symbols of every family (most blocks / most work to split among workers)
        big += sorted((e for e in enc if e["sym"] == sym), key=lambda e: -(e["res"].get("w", 0) * e["res"].get("hh", 1)))[:4]
    seen, out = set(), []
    for e in spread + big:
        if e["i"] not in seen:
            seen.add(e["i"])
            out.append(strip(e))
    return out


def judge(chk, drive, jobs, module, cfg, nshards, tags_wanted, shard_key=None, heap="3g", describe=None, timeout=3000, pairs=40, env=None, envs=60):
    """Runs jobs, validates events, reports reproduced bad tags selected by tags_wanted(ev, tag). Returns (events, extras)."""
    evs = vlib.run_drive(drive, jobs, chk.work, env=env)
    shards = vlib.shard([e for e in evs if e.get("op") != "poke"], nshards, key=shard_key)      # a "poke" carries no observation (see cmd/drive)
    acc, bad, st, tr, extras = vlib.validate_traces(chk.work, module, cfg, shards, timeout=timeout, heap=heap, want_extra=True)
    chk.cov["states"] += st
    chk.cov["transitions"] += tr
    # a round-trip failure on an input that should not have been accepted at all is C10's (accept-unrepresentable), not the family's
    unrep = {(b["shard"], b["l"]) for b in bad if b["why"] == "accept-unrepresentable"}
    bad = [b for b in bad if not (is_roundtrip(b["why"]) and (b["shard"], b["l"]) in unrep)]
    mine = [b for b in bad if tags_wanted(b["event"], b["why"])]
    chk.cov["traces_validated_against_impl"] += len(evs) - len({(b["shard"], b["l"]) for b in mine})
    chk.cov["other_properties_tags_seen"] = sorted({b["why"] for b in bad if not tags_wanted(b["event"], b["why"])})
    # reproduce: one representative per key, each alone (with the earlier same-pattern event for history tags) in a fresh process
    reps = {}
    for b in mine:
        reps.setdefault(key_of(b["event"], b["why"]), b)
    if reps:
        rjobs, owners = [], []
        for k, b in list(reps.items())[:60]:
            ev = b["event"]
            if b["why"].startswith("pattern-depends"):
                prev = [e for e in evs if e["i"] < ev["i"] and e.get("sym") == ev.get("sym") and e.get("content") == ev.get("content")
                        and e.get("p") == ev.get("p") and base_api(e.get("api", "")) == base_api(ev.get("api", ""))]
                for e in prev[:1]:
                    rjobs.append(strip(e))
                    owners.append(None)
            rjobs.append(strip(ev))
            owners.append((k, b["why"]))
        sub = vlib.run_drive(drive, rjobs, chk.work, name="repro", env=env)
        _, bad2, _, _ = vlib.validate_traces(chk.work, module, cfg, [sub], heap=heap, timeout=timeout)
        got = {(b["l"], b["why"]) for b in bad2}
        for idx, own in enumerate(owners):
            if own is None:
                continue
            k, why = own
            if (idx + 1, why) not in got:
                # not reproducible alone: the defect may depend on the calls made before it in the same process (shared caches).
                # Replay the whole prefix of the original run in a fresh process and validate only the event in question.
                ev0 = reps[k]["event"]
                rp = reproduce_with_history(chk, drive, evs, ev0, why, module, cfg, heap, timeout, base_env=env)
                if rp is None:
                    raise vlib.Inconclusive("unreproduced rejection: %s" % k)
                chk.report(k + " (history-dependent)", "%s: only after the %d calls made before it in the same process" % (k, len(rp["jobs"]) - 1), rp)
                owners[idx] = None
                continue
            ev = sub[idx]
            what = describe(ev, why) if describe else "%s: content=%r -> %s" % (k, bytes(ev["content"])[:40], why)
            chk.report(k + (" under %s" % env if env else ""), what + (" (environment %s)" % env if env else ""),
                       dict(jobs=rjobs[max(0, idx - 1):idx + 1] if why.startswith("pattern-depends") else [rjobs[idx]], expect=why, env=env or {}))
    if pairs:
        pj = error_path_jobs(evs, pairs)
        if pj:
            pevs, _ = judge(chk, drive, pj, module, cfg, max(1, nshards // 4), tags_wanted, shard_key=shard_key, heap=heap, describe=describe, timeout=timeout, pairs=0, envs=0)
            chk.cov["refused_then_accepted_pairs"] = chk.cov.get("refused_then_accepted_pairs", 0) + len(pevs) // 2
    if envs and env is None:
        # environment stage: the result of a call must not depend on how many processors the runtime may use (worker pools sized from GOMAXPROCS)
        sub = env_subset(evs, envs)
        for e in ENVS:
            eevs, _ = judge(chk, drive, sub, module, cfg, max(1, nshards // 4), tags_wanted, shard_key=shard_key, heap=heap, describe=describe, timeout=timeout, pairs=0, env=e, envs=0)
        chk.cov["environments"] = dict(gomaxprocs=[e["GOMAXPROCS"] for e in ENVS], calls_each=len(sub))
    return evs, extras


FAMILY = {"c128": "Trace1D", "ean": "Trace1D", "c39": "Trace1D", "c93": "Trace1D", "codabar": "Trace1D", "25": "Trace1D",
          "qr": "TraceQR", "dm": "TraceDM", "aztec": "TraceAztec", "pdf": "TracePDF"}
HEAP = {"Trace1D": "3g", "TraceQR": "5g", "TraceDM": "5g", "TraceAztec": "5g", "TracePDF": "4g"}


def module_of(ev):
    if ev.get("op") == "addchecksum":
        return "Trace1D"
    return FAMILY.get(ev.get("sym"), "Trace1D")


def judge_multi(chk, drive, jobs, tags_wanted, nshards=14, describe=None, timeout=6000, pairs=40, env=None, envs=60):
    """Like judge, for job lists that mix symbologies: events are routed to their family's trace specification."""
    evs = vlib.run_drive(drive, jobs, chk.work, env=env)
    byfam = {}
    for e in evs:
        if e.get("op") != "poke":          # a "poke" carries no observation (see cmd/drive): only the calls after it are judged
            byfam.setdefault(module_of(e), []).append(e)
    total = sum(vlib._weight(e) for e in evs) or 1
    allbad, allextras = [], {}
    for mod, fevs in byfam.items():
        share = max(1, round(nshards * sum(vlib._weight(e) for e in fevs) / total))
        shards = vlib.shard(fevs, share)
        acc, bad, st, tr, extras = vlib.validate_traces(chk.work, mod, mod + ".cfg", shards, timeout=timeout, heap=HEAP[mod], want_extra=True)
        chk.cov["states"] += st
        chk.cov["transitions"] += tr
        for b in bad:
            b["module"] = mod
        allbad += bad
        allextras[mod] = extras
    unrep = {(b["module"], b["shard"], b["l"]) for b in allbad if b["why"] == "accept-unrepresentable"}
    allbad = [b for b in allbad if not (is_roundtrip(b["why"]) and (b["module"], b["shard"], b["l"]) in unrep)]
    mine = [b for b in allbad if tags_wanted(b["event"], b["why"])]
    chk.cov["traces_validated_against_impl"] += len(evs) - len({(b["module"], b["shard"], b["l"]) for b in mine})
    chk.cov["other_properties_tags_seen"] = sorted({b["why"] for b in allbad if not tags_wanted(b["event"], b["why"])})
    reps = {}
    for b in mine:
        reps.setdefault(key_of(b["event"], b["why"]), b)
    for k, b in list(reps.items())[:40]:
        ev, mod = b["event"], b["module"]
        rjobs = []
        if b["why"].startswith("pattern-depends") or b["why"] == "auto-not-minimal":
            prev = [e for e in evs if e["i"] < ev["i"] and e.get("sym") == ev.get("sym") and e.get("content") == ev.get("content") and
                    (b["why"] == "auto-not-minimal" or (e.get("p") == ev.get("p") and base_api(e.get("api", "")) == base_api(ev.get("api", ""))))]
            rjobs += [strip(e) for e in (prev[:1] if b["why"].startswith("pattern") else [e for e in prev if e["p"][1:2] == [0]][:1])]
        rjobs.append(strip(ev))
        sub = vlib.run_drive(drive, rjobs, chk.work, name="repro", env=env)
        _, bad2, _, _ = vlib.validate_traces(chk.work, mod, mod + ".cfg", [sub], heap=HEAP[mod], timeout=timeout)
        if (len(rjobs), b["why"]) not in {(x["l"], x["why"]) for x in bad2}:
            # not reproducible alone: state shared by the calls made before it in the same process. Replay the whole prefix of the original
            # run (all families) in a fresh process and validate only the event in question.
            rp = reproduce_with_history(chk, drive, evs, ev, b["why"], mod, mod + ".cfg", HEAP[mod], timeout, base_env=env)
            if rp is None:
                raise vlib.Inconclusive("unreproduced rejection: %s" % k)
            chk.report(k + " (history-dependent)", "%s: only after the %d calls made before it in the same process" % (k, len(rp["jobs"]) - 1), rp)
            continue
        what = describe(sub[-1], b["why"]) if describe else "%s: content=%r -> %s" % (k, bytes(ev["content"])[:40], b["why"])
        chk.report(k + (" under %s" % env if env else ""), what + (" (environment %s)" % env if env else ""), dict(jobs=rjobs, expect=b["why"], module=mod, env=env or {}))
    if pairs:
        pj = error_path_jobs(evs, pairs)
        if pj:
            pevs, _ = judge_multi(chk, drive, pj, tags_wanted, nshards=max(2, nshards // 4), describe=describe, timeout=timeout, pairs=0, envs=0)
            chk.cov["refused_then_accepted_pairs"] = chk.cov.get("refused_then_accepted_pairs", 0) + len(pevs) // 2
    if envs and env is None:
        sub = env_subset(evs, envs)
        for e in ENVS:
            judge_multi(chk, drive, sub, tags_wanted, nshards=max(2, nshards // 4), describe=describe, timeout=timeout, pairs=0, env=e, envs=0)
        chk.cov["environments"] = dict(gomaxprocs=[e["GOMAXPROCS"] for e in ENVS], calls_each=len(sub))
    return evs, allextras


def replay_multi(prop, path):
    r = json.load(open(path))["replay"]
    mod = r.get("module", "Trace1D")
    return replay_generic(prop, path, mod, mod + ".cfg", heap=HEAP.get(mod, "4g"))


def replay_generic(prop, path, module, cfg, heap="3g"):
    r = json.load(open(path))["replay"]
    chk = vlib.Check(prop, "quick")
    drive = vlib.build_harness(chk.work)
    evs = vlib.run_drive(drive, r["jobs"], chk.work, env=(r.get("env") or None))
    if r.get("last_only"):
        keep = set(r.get("keep") or [])
        _, bad, _, _ = vlib.validate_traces(chk.work, module, cfg, [[e for e in evs if e["i"] in keep] + evs[-1:]], heap=heap)
    else:
        _, bad, _, _ = vlib.validate_traces(chk.work, module, cfg, [evs], heap=heap)
    hit = [b for b in bad if b["why"] == r.get("expect", b["why"])]
    for b in hit:
        print("REPRODUCED l=%d why=%s %s" % (b["l"], b["why"], key_of(b["event"], b["why"])))
    return 1 if hit else 0


# ------------------------------------------------------------------------------------------------ generators

C128_ALPHA = [chr(i) for i in range(128)] + FNC
C128_CLASSES = dict(D="0123456789", F=FNC[0], X=FNC[1] + FNC[2] + FNC[3], U=" !\"#$%&'()*+,-./:;<=>?@ABCDEFGHIJKLMNOPQRSTUVWXYZ[\\]^_",
                    L="`abcdefghijklmnopqrstuvwxyz{|}~\x7f", K="".join(chr(i) for i in range(32)))


def c128_jobs(rng, quick):
    out = []
    cnt = {k: 0 for k in C128_CLASSES}

    def member(c):
        s = C128_CLASSES[c]
        cnt[c] += 1
        return s[(cnt[c] * 7 + rng.randrange(3)) % len(s)]

    def add(s, api="Encode", scheme=None):
        out.append(gen.enc("c128", U(s), (), api=api, scheme=scheme))

    for ch in C128_ALPHA:
        add(ch)
        add(ch, api="EncodeWithoutChecksum")
    pairs = [(a, b) for a in C128_ALPHA for b in C128_ALPHA]
    for a, b in (rng.sample(pairs, 500) if quick else pairs):
        add(a + b)
    # every class string up to length 4 (5 thorough), classes instantiated with rotating members
    import itertools
    for n in range(2, 5 if quick else 6):
        combos = list(itertools.product("DFXULK", repeat=n))
        if quick and len(combos) > 700:
            combos = rng.sample(combos, 700)
        for cs in combos:
            add("".join(member(c) for c in cs), api=rng.choice(["Encode", "Encode", "EncodeWithoutChecksum"]))
    # digit runs of every length in every context
    for n in range(1, 13):
        run = "".join(rng.choice("0123456789") for _ in range(n))
        for pre, post in [("", ""), ("\x01", ""), ("a", ""), ("", "a"), ("", "\x02"), (FNC[0], ""), ("", FNC[0]), ("A", "z"), ("\x03", "\x04")]:
            add(pre + run + post)
        if n >= 2:
            k = rng.randrange(1, n)
            add(run[:k] + FNC[0] + run[k:])
            add(FNC[0] + run[:k] + FNC[0] + run[k:] + FNC[0])
    for _ in range(300 if quick else 6000):
        n = rng.choice([3, 5, 9, 20, 40, 79, 80])
        pools = [C128_ALPHA, list("0123456789"), list("0123456789") + [FNC[0]], [chr(i) for i in range(32)] + list("AB12"), list("abcAB12")]
        s = []
        while len(s) < n:
            pool = rng.choice(pools)
            s += [rng.choice(pool) for _ in range(rng.randint(1, 9))]
        add("".join(s[:n]), api=rng.choice(["Encode", "Encode", "EncodeWithoutChecksum", "EncodeWithColor", "EncodeWithoutChecksumWithColor"]),
            scheme=None)
    for j in out:
        if j["api"].endswith("WithColor"):
            j["scheme"] = dict(rng.choice(gen.SCHEMES))
            named = {"s8": "gray", "s16": "gray16", "s24": "rgba"}
            if "name" in j["scheme"]:
                j["scheme"]["model"] = named[j["scheme"]["name"]]
    # the most symbols a content can need: a code-set switch before every character (80 characters -> start + 80 switches + 80 data characters)
    for n in (76, 77, 78, 79, 80):
        for unit in ("\x01a", "a\x01", "\x02~", "z\x1f"):
            t = (unit * 41)[:n]
            add(t)
            add(t, api="EncodeWithoutChecksum")
    # boundary lengths and invalid runes
    add("")
    add("A" * 80)
    add("A" * 81)
    add("1" * 82)
    add("é" * 40)
    for bad in ["\u0080", "ð", "õ", "�", "Ā", "AÿB"]:
        add(bad)
        add("12" + bad + "34")
    out.append(gen.enc("c128", [0xff], ()))
    out.append(gen.enc("c128", [65, 0xc3], ()))
    out.append(gen.enc("c128", [0xf1], ()))     # a lone byte 0xF1 is invalid UTF-8, not FNC1
    return out


def ean_jobs(rng, quick):
    out = []

    def add(s):
        out.append(gen.enc("ean", s if isinstance(s, list) else U(s), ()))

    def rnd(n):
        return "".join(rng.choice("0123456789") for _ in range(n))
    reps = 1 if quick else 4
    for _ in range(reps):
        # every (first digit, position, digit) cell of EAN-13 and (position, digit) cell of EAN-8
        for f in "0123456789":
            for pos in range(1, 12):
                for d in "0123456789":
                    s = list(f + rnd(11))
                    s[pos] = d
                    s = "".join(s)
                    add(s)
                    full = s + gen.ean_check(s)
                    if rng.random() < 0.5:
                        add(full)
                    if rng.random() < 0.15:
                        add(s + str((int(gen.ean_check(s)) + rng.randint(1, 9)) % 10))
        for pos in range(7):
            for d in "0123456789":
                s = list(rnd(7))
                s[pos] = d
                s = "".join(s)
                add(s)
                add(s + gen.ean_check(s))
                add(s + str((int(gen.ean_check(s)) + rng.randint(1, 9)) % 10))
    for s in ["0000000", "00000000", "000000000000", "0000000000000", "9999999", "999999999999"]:
        add(s)
    for s in ["0000000", "000000000000"]:   # all ten final digits: exactly one is accepted
        for d in "0123456789":
            add(s + d)
    for n in range(0, 16):
        add("1" * n)
    for n in (7, 8, 12, 13):
        base = rnd(n)
        for pos in range(n):
            for ch in ["A", " ", "/", ":", "\x00", "B"]:
                add(base[:pos] + ch + base[pos + 1:])
            add(U(base[:pos]) + [0xb2] + U(base[pos + 1:]))
    for n in (8, 13):            # a non-digit somewhere AND a neighbour of the digits ('/' = '0' - 1, ':' = '9' + 1) or another non-digit in the check position
        for _ in range(6 if quick else 40):
            base = rnd(n)
            pos = rng.randrange(n - 1)
            for last in "/:@ A":
                for ch in "A/: x":
                    add(base[:pos] + ch + base[pos + 1:n - 1] + last)
    add("file:///")
    add("////////")
    add("::::::::")
    add(U("123456") + [0xc3, 0xa9])          # 8 bytes, multi-byte rune
    add(U("12345") + [0xd9, 0xa1])           # 7 bytes with an Arabic-Indic digit
    add(U("1234567891") + [0xef, 0xbc, 0x91])
    # sequences in which a call's content is a prefix / extension of the previous one (a remembered last symbol matched by prefix)
    for _ in range(6 if quick else 40):
        d12 = rnd(12)
        full13 = d12 + gen.ean_check(d12)
        d7 = full13[:7]
        full8 = d7 + gen.ean_check(d7)
        for s13 in (full13, d7, full8, d12, full13, full8, full13[:8], d7, full13, d12[:7], d12):
            add(s13)
    # every value of the weighted digit sum (EAN-13: 0..216, EAN-8: 0..135) that the check-digit arithmetic can meet, built constructively
    def with_sum(n, target):
        w = [3 if (n - 1 - k) % 2 == 0 else 1 for k in range(n)]       # weights from the right: 3, 1, 3, ...
        d = [0] * n
        order = list(range(n))
        rng.shuffle(order)
        rest = target
        for k in order:
            take = min(9, rest // w[k])
            if take > 0 and rng.random() < 0.8:
                take = rng.randint(max(0, take - 2), take) if rest - take * w[k] > 0 else take
            d[k] = take
            rest -= take * w[k]
        for k in order:                                                 # spend what is left
            while rest >= w[k] and d[k] < 9:
                d[k] += 1
                rest -= w[k]
        return "".join(map(str, d)) if rest == 0 else None
    for n, top in ((12, 216), (7, 135)):
        for target in range(0, top + 1, 1 if not quick or n == 12 else 2):
            for _ in range(1 if quick else 3):
                s12 = with_sum(n, target)
                if s12 is not None:
                    add(s12)
                    if rng.random() < 0.5:
                        add(s12 + gen.ean_check(s12))
    add("123456AB")
    add("5512345B")
    # truncation aliases: runes whose low byte is an ASCII digit (U+0130.., U+0430.., U+FF30.., U+1D730..), at every position, in strings whose
    # byte length or rune length is one of 7, 8, 12, 13 (with the check digit an aliasing reader would expect, and with another one)
    for base in (0x0130, 0x0430, 0xFF30, 0x2030, 0x1D730, 0x00B0):
        for total in (7, 8, 12, 13):
            for by_bytes in (True, False):
                for _ in range(2 if quick else 8):
                    d = rng.randrange(10)
                    r = chr(base + d)
                    rb = len(r.encode("utf-8"))
                    ndig = (total - rb) if by_bytes else (total - 1)
                    if ndig < 0:
                        continue
                    pos = rng.randrange(ndig + 1)
                    digs = rnd(ndig)
                    if total in (8, 13) and pos < ndig and rng.random() < 0.7:
                        shadow = digs[:pos] + str(d) + digs[pos:]
                        digs = digs[:-1] + gen.ean_check(shadow[:-1])
                    add(digs[:pos] + r + digs[pos:])
    for _ in range(100 if quick else 3000):
        n = rng.choice([7, 8, 12, 13])
        s = rnd(n)
        if n in (8, 13) and rng.random() < 0.7:
            s = s[:-1] + gen.ean_check(s[:-1])
        add(s)
    return out


C39_BASIC = "0123456789ABCDEFGHIJKLMNOPQRSTUVWXYZ-. $/+%"


def c39_93_jobs(rng, quick, sym):
    out = []

    def add(s, cs, full):
        out.append(gen.enc(sym, s if isinstance(s, list) else U(s), (cs, full)))
    ascii_ = [chr(i) for i in range(128)]
    for cs in (0, 1):
        for full in (0, 1):
            alpha = ascii_ if full else list(C39_BASIC)
            add("", cs, full)
            for a in ascii_:
                add(a, cs, full)
            pairs = [(a, b) for a in alpha for b in alpha]
            if quick:
                pairs = rng.sample(pairs, 500 if full else 350)
            for a, b in pairs:
                add(a + b, cs, full)
            for _ in range(80 if quick else 800):
                n = rng.choice([3, 4, 7, 14, 15, 16, 19, 20, 21, 22, 40, 60])
                add("".join(rng.choice(alpha) for _ in range(n)), cs, full)
            # very long texts (no symbology limit): accumulators of check characters and widths grow with the length
            for n in ((120, 300) if quick else (100, 120, 150, 200, 300, 500, 800)):
                add("".join(rng.choice(alpha) for _ in range(n)), cs, full)
                add(rng.choice(["%", "Z", "+"] if not full else ["~", "z", "\x7f"]) * n, cs, full)
            for bad in ["*", "A*B", "a", "\u0080", "ÿ", "ñ", "ñA", "�", "Aé"]:
                add(bad, cs, full)
            add([65, 0xff], cs, full)
    return out


def codabar_jobs(rng, quick):
    out = []
    chars = "0123456789-$:/.+ABCD"
    import itertools

    def add(s):
        out.append(gen.enc("codabar", s if isinstance(s, list) else U(s), ()))
    for n in range(0, 4 if quick else 5):
        for t in itertools.product(chars + "aE!", repeat=n):
            add("".join(t))
    if quick:
        for _ in range(1500):
            add("".join(rng.choice(chars + "aE!") for _ in range(4)))
    for _ in range(300 if quick else 3000):
        n = rng.randint(3, 40)
        mid = "".join(rng.choice(chars[:16]) for _ in range(n))
        s = rng.choice("ABCD") + mid + rng.choice("ABCD")
        r = rng.random()
        if r < 0.15:
            k = rng.randrange(len(s))
            s = s[:k] + rng.choice("ABCDabcd*E \n") + s[k + 1:]
        elif r < 0.2:
            s = s + rng.choice(["\n", " ", "1"])
        elif r < 0.25:
            s = rng.choice(["x", " ", "1"]) + s
        add(s)
    for n in ((150, 600) if quick else (100, 150, 300, 600, 1000, 2000)):          # very long texts
        add("A" + "".join(rng.choice(chars[:16]) for _ in range(n)) + "D")
        add("B" + rng.choice(":/.+") * n + "C")
    for s in ["!", "A!", "!A", "A1B\n", "\nA1B", "A1BA2B", "a1b", "AéB", "A1B!", "AA", "AB", "ABCD", "A", "A1", "1A"]:
        add(s)
    add([65, 0xff, 66])
    return out


def tof_jobs(rng, quick):
    out = []
    import itertools
    for n in range(0, 5 if quick else 6):
        for t in itertools.product("0123456789", repeat=n):
            s = "".join(t)
            for il in (0, 1):
                out.append(gen.enc("25", U(s), (il,)))
            out.append(dict(op="addchecksum", content=U(s)))
    for _ in range(300 if quick else 20000):
        n = rng.choice([5, 6, 7, 8, 9, 12, 13, 20, 31, 40]) if quick else rng.choice([6, 7, 7, 8, 9, 13, 20, 40])
        s = "".join(rng.choice("0123456789") for _ in range(n))
        out.append(gen.enc("25", U(s), (rng.randint(0, 1),)))
        out.append(dict(op="addchecksum", content=U(s)))
    for n in ((146, 148, 228, 230, 600) if quick else (100, 146, 147, 148, 150, 200, 226, 228, 230, 300, 500, 1000, 2000)):    # very long numbers
        for s in ("".join(rng.choice("0123456789") for _ in range(n)), "9" * n, "7" * n):
            for il in (0, 1):
                out.append(gen.enc("25", U(s), (il,)))
            out.append(dict(op="addchecksum", content=U(s)))
    for base in ["1234", "123456", "12"]:
        for pos in range(len(base) + 1):
            for ch in ["A", " ", "-", "é", "١", "１"]:
                s = base[:pos] + ch + base[pos + (1 if pos < len(base) else 0):]
                for il in (0, 1):
                    out.append(gen.enc("25", U(s), (il,)))
                out.append(dict(op="addchecksum", content=U(s)))
    for s in ["é", "éé", "1é", "é1", "1é1"]:
        for il in (0, 1):
            out.append(gen.enc("25", U(s), (il,)))
    out.append(gen.enc("25", [0xff], (1,)))
    out.append(gen.enc("25", [49, 0xff], (1,)))
    return out


ROUNDTRIP_TAGS = ("structure-", "decode")


def is_roundtrip(tag):
    return tag.startswith("structure-") or tag == "decode"
