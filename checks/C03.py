"""C03 - Aztec: every accepted payload decodes back to exactly that payload.
model phase : MC_Aztec - geometry laws for all 36 sizes (layer spiral covers every non-function module exactly once, bit count formula,
              reference-grid lines), high-level automaton self-consistency (encoder-model-free: every latch/shift path), layer chooser model
              AztecHLEnc.tla: transcription of the library's state-search high-level encoder || decoding automaton for all strings up to length 4 (5) over
              representative bytes, plus a negative design (binary shift from punctuation mode without latch) that must violate RoundTrip
trace valid.: every image is read by the reference reader of Aztec.tla (TraceAztec)"""
import vlib, onedim, gen, encconf


def total_bits(layers, compact):
    return ((88 if compact else 112) + 16 * layers) * layers


CLASSES = dict(U="ABCXYZ", L="abcxyz", D="0123456789", S=" ", P="!#()*+-/;<=>?[]{}", M="\x01\x07\x1b@\\^_`|~\x7f", B="\"\x00\x80\xff\xa9", C=",.", K=":")


def az_jobs(rng, quick):
    jobs = []

    def add(c, pct=33, req=0, **kw):
        jobs.append(gen.enc("aztec", c if isinstance(c, (bytes, list)) else list(c.encode("latin-1")), (pct, req), **kw))
    add(b"")
    add(b"", 0, -1)
    for c in gen.magic_contents(rng):
        add(c, rng.choice([0, 23, 33]))
    # a binary-shift run at its maximal length (31 + 2047 bytes) with a two-byte punctuation pair exactly at the limit, more binary behind it
    for pair in (b"\r\n", b". ", b", ", b": ") if not quick else (b"\r\n", b": "):
        for off in (2076, 2077, 2078):
            add(bytes(128 + (k * 3) % 100 for k in range(off)) + pair + bytes(128 + k for k in range(6)), 0, 0)
    add(b"", 100, 5)
    for b in range(0, 256, 3 if quick else 1):
        add(bytes([b]), rng.choice([0, 23, 33, 50]))
    # every ordered pair / triple of classes with concrete members
    import itertools
    cnt = 0
    for combo in itertools.product(CLASSES, repeat=2):
        add("".join(rng.choice(CLASSES[c]) for c in combo) + rng.choice(["", "a", "A1", ". x"]), rng.choice([0, 23, 33, 50, 100]))
    triples = list(itertools.product(CLASSES, repeat=3))
    for combo in (rng.sample(triples, 150) if quick else triples):
        add("".join(rng.choice(CLASSES[c]) for c in combo))
    # runs: k characters of one class (long enough for the encoder to LATCH rather than shift) followed by one of another class
    for cx in CLASSES:
        for k in ((2, 4, 6) if quick else (1, 2, 3, 4, 5, 6, 8)):
            for cy in CLASSES:
                if cx != cy:
                    add("".join(rng.choice(CLASSES[cx]) for _ in range(k)) + rng.choice(CLASSES[cy]) + rng.choice(["", "ab", "Z9"]), rng.choice([0, 23, 33]))
    for s in ["\r\n", ". ", ", ", ": ", "a. b, c: d\r\ne", ".\r", ":", "\r", "A\r\nB", "1, 2. 3: 4", ". . . ", ",,  ", "::  ::"]:
        add(s)
        add("Ab" + s + "1")
    add("Hello, World. It's 12:30 on 2024-01-01; call +1 (555) 010-9999 NOW! e=mc^2 ~ {x|y} @home \\o/ `q`\r\nBye.")
    # binary-shift runs at the length-field boundaries, alone and embedded in text
    for n in [1, 2, 30, 31, 32, 33, 61, 62, 63, 64, 65] + ([] if quick else [93, 94, 95, 200, 2047, 2078, 2079]):
        run = bytes(rng.randrange(128, 256) for _ in range(n))
        add(run)
        add(b"AB" + run + b"cd")
    if quick:
        add(bytes(rng.randrange(128, 256) for _ in range(300)))
    # stuffing-heavy payloads (long runs of equal bits) with automatic sizing and little error correction: the stuffed length, not the
    # raw one, decides which sizes fit (compact symbols hold at most 64 data words)
    for n in (range(40, 76, 2) if quick else range(1, 140)):
        for fill in (0x00, 0xFF):
            for pct in ((0, 10) if quick else (0, 5, 10, 23)):
                add(bytes([fill]) * n, pct, 0)
    # every symbol size through an explicit layer request, payload filling about two thirds of the symbol
    for req in list(range(-4, 0)) + list(range(1, 33)):
        compact, L = req < 0, abs(req)
        n = max(1, int(0.62 * total_bits(L, compact) / 5.2)) if not (compact and L > 0 and total_bits(L, True) > 0 and False) else 1
        if compact:
            n = min(n, int(0.62 * 64 * (6 if L <= 2 else 8) / 5.2))
        text = "".join(rng.choice("abcdefghij klmnop") for _ in range(n))
        add(text, 23, req)
        if not quick:
            add(bytes(rng.randrange(256) for _ in range(max(1, n // 2))), 33, req)
    # the first layer count that does not fit, and out-of-range requests
    add("x" * 200, 33, -1)
    add("x" * 40, 33, 1)
    add("A", 33, -5)
    add("A", 33, 33)
    add("x" * 4000, 33, 0)
    for _ in range(60 if quick else 2500):
        n = rng.randint(0, rng.choice([4, 12, 40, 120] + ([] if quick else [400, 1200, 1900])))
        pools = ["ABC DEF", "abc def", "0123456789., ", "!?()[]{}", bytes(range(256)).decode("latin-1")]
        s = ""
        while len(s) < n:
            s += "".join(rng.choice(rng.choice(pools)) for _ in range(rng.randint(1, 8)))
        add(s[:n], rng.choice([0, 1, 10, 23, 33, 50, 75, 100, 150]), rng.choice([0, 0, 0, rng.randint(-4, 32)]))
    return jobs


AZ_SIZES = sorted([(11 + 4 * L, -L) for L in range(1, 5)] + [(14 + 4 * L + 1 + 2 * (((14 + 4 * L) // 2 - 1) // 15), L) for L in range(1, 33)])


def az_sweep(chk, drive, rng, quick):
    """Adaptive boundary search. Phase 1 asks the real encoder (no pixels) which size it chooses automatically for every payload length of a
    few (alphabet, percentage) combinations. Returns [(alphabet, pct, [(n, width or None)])] - used by C03 (the first lengths after every
    size transition, where the stuffed stream decided and where the codeword size may change, are then read back in full) and by C13."""
    combos = [(b"ABCDEFGHIJKLMNOPQRSTUVWXYZ", 33), (b"0123456789", 23), (bytes(range(128, 160)), 50)]
    if not quick:
        combos += [(b"abc xyz, 12. AB", 33), (b"ABCDEFGH", 10), (b"A", 50), (b"5", 33), (b"\x80", 50), (b"abcdefghij", 90), (b"ABCDEFGHIJKLMNOPQRSTUVWXYZ", 30)]
    out = []
    for (alpha, pct) in combos:
        maxn = 700 if quick else 3100
        text = bytes(rng.choice(alpha) for _ in range(maxn))
        jobs = [gen.enc("aztec", list(text[:n]), (pct, 0), proj="outcome") for n in range(1, maxn + 1)]
        evs = vlib.run_drive(drive, jobs, chk.work, name="azsweep")
        out.append((text, pct, [(n + 1, (e["res"].get("w") if e["res"]["kind"] == "ok" else None)) for n, e in enumerate(evs)]))
    return out


def transition_jobs(sweep, quick):
    jobs = []
    for (text, pct, widths) in sweep:
        prev = None
        for (n, w) in widths:
            if w is not None and prev is not None and w != prev:
                for d in ((0, 1) if quick else (-1, 0, 1, 2)):
                    if 1 <= n + d <= len(text):
                        jobs.append(gen.enc("aztec", list(text[:n + d]), (pct, 0)))
            if w is not None:
                prev = w
    return jobs


def wanted(ev, tag):
    return ev.get("sym") == "aztec" and (onedim.is_roundtrip(tag) or tag == "layers-not-honoured")


def az_cov(chk, extras):
    seen = set()
    for x in extras:
        for t in x.get("seen", []):
            seen.add((t[0], t[1], t[2]))
    chk.cov["sizes_decoded"] = len({(t[0], t[1]) for t in seen})
    chk.cov["compact_layers_decoded"] = sorted({t[1] for t in seen if t[0]})
    chk.cov["full_layers_decoded"] = sorted({t[1] for t in seen if not t[0]})
    chk.cov["word_sizes_decoded"] = sorted({t[2] for t in seen})


def describe(ev, why):
    return "aztec.Encode(%d bytes %r..., %d, %d): %s" % (len(ev["content"]), bytes(ev["content"][:12]), ev["p"][0], ev["p"][1], why)


def key_extra(ev, why):
    return ""


def run(tier):
    chk = vlib.Check("C03", tier)
    quick = tier == "quick"
    chk.add_model([dict(module="MC_Aztec.tla", cfg="MC_Aztec.cfg", workers=4, timeout=3000, heap="6g"),
                   dict(module="MC_AztecSel.tla", cfg="MC_AztecSel_quick.cfg" if quick else "MC_AztecSel_thorough.cfg", workers=6, timeout=3000, heap="4g"),
                   dict(module="MC_AztecHL.tla", cfg="MC_AztecHL_quick.cfg" if quick else "MC_AztecHL_thorough.cfg", workers=8, timeout=5000, heap="6g"),
                   dict(module="MC_AztecHL.tla", cfg="MC_AztecHL_prefix.cfg", workers=2, timeout=1000),
                   dict(module="MC_AztecHL.tla", cfg="MC_AztecHL_nofix.cfg", workers=2, timeout=1000, expect_violation="RoundTrip")])
    drive = vlib.build_harness(chk.work)
    jobs = az_jobs(chk.rng, quick)
    # adaptive boundary search: the first payload lengths after every automatic size transition (the codeword size changes at three of them)
    sweep = az_sweep(chk, drive, chk.rng, quick)
    tj = transition_jobs(sweep, quick)
    chk.cov["size_transitions_probed"] = len(tj)
    jobs += tj
    # encoder-model conformance (see tools/encconf.py): strings of MC_AztecHL's state space where the real state search left the model
    wrong, drift = encconf.conformance(chk, "aztec", quick)
    for k, c in enumerate(wrong + drift):
        jobs.append(gen.enc("aztec", list(c["content"]), ((0, 23, 33)[k % 3], 0)))
    for d in encconf.aztec_selection(chk, quick):          # size choices where the real encoder left AztecSel!Select
        jobs.append(gen.enc("aztec", d["content"], tuple(d["p"])))
    evs, extras = onedim.judge(chk, drive, jobs, "TraceAztec", "TraceAztec.cfg", 14 if quick else 16, wanted, heap="5g", timeout=6000, describe=describe)
    ok = [e for e in evs if e["res"]["kind"] == "ok"]
    chk.cov["symbols_decoded"] = len(ok)
    chk.cov["rejected_inputs"] = len(evs) - len(ok)
    chk.cov["modules_read"] = sum(e["res"]["w"] ** 2 for e in ok)
    az_cov(chk, extras)
    ex = next(e for e in ok if e["res"]["w"] == 15 and len(e["content"]) > 2)
    chk.sample(dict(payload=bytes(ex["content"]).decode("latin-1"), pct=ex["p"][0], layers=ex["p"][1], rows=["".join(map(str, r)) for r in ex["res"]["px"]]))
    chk.assumptions += ["Aztec layout, mode message and character tables written from ISO/IEC 24778", "a trailing all-ones pseudo binary shift shorter than one word is stuffing padding (as every reader treats it)",
                        "negative percentages are outside the property's domain"]
    return chk.finish()


def replay(path):
    return onedim.replay_generic("C03", path, "TraceAztec", "TraceAztec.cfg", heap="5g")
