"""C05 - Code 128: every accepted text decodes back to exactly that text.
model phase : encoder model (transcription of getCodeIndexList) || reader automaton over all strings of a representative alphabet
trace valid.: every returned image is read by the reference reader of Code128.tla (Trace1D)"""
import vlib, onedim, gen, encconf

def wanted(ev, tag):
    return ev.get("sym") == "c128" and onedim.is_roundtrip(tag)

def run(tier):
    chk = vlib.Check("C05", tier)
    quick = tier == "quick"
    chk.add_model([dict(module="MC_Code128.tla", cfg="MC_Code128_quick.cfg" if quick else "MC_Code128_thorough.cfg", workers=8, timeout=3000, heap="6g")])
    drive = vlib.build_harness(chk.work)
    jobs = onedim.c128_jobs(chk.rng, quick)
    # encoder-model conformance (see tools/encconf.py): strings of MC_Code128's state space where the real code-set chooser left the model
    wrong, drift = encconf.conformance(chk, "c128", quick)
    for c in wrong + drift:
        for api in ("Encode", "EncodeWithoutChecksum"):
            jobs.append(gen.enc("c128", "".join(map(chr, c["content"])).encode("utf-8"), (), api=api))
    evs, extras = onedim.judge(chk, drive, jobs, "Trace1D", "Trace1D.cfg", 10 if quick else 16, wanted)
    seen = set()
    for x in extras:
        seen |= set(x.get("seen", []))
    ok = [e for e in evs if e["res"]["kind"] == "ok"]
    chk.cov["symbols_decoded"] = len(ok)
    chk.cov["rejected_inputs"] = len(evs) - len(ok)
    chk.cov["distinct_symbol_values_decoded"] = len(seen)
    chk.cov["symbol_values_never_seen"] = sorted(set(range(106)) - seen)
    chk.cov["apis"] = sorted({e["api"] for e in evs})
    chk.sample(dict(content=bytes(ok[len(ok) // 2]["content"]).decode("utf-8", "replace"), api=ok[len(ok) // 2]["api"], modules="".join(map(str, ok[len(ok) // 2]["res"]["px"][0]))))
    chk.cov["coverage_shortfall"] = len(seen) < 106
    chk.assumptions += ["Code 128 pattern table written from ISO/IEC 15417 (tools/gentables1d.py), structural laws ASSUMEd", "FNC1-4 are the runes U+00F1-U+00F4 as the library defines",
                        "optimality of the code-set choice is not part of the property"]
    return chk.finish()

def replay(path):
    return onedim.replay_generic("C05", path, "Trace1D", "Trace1D.cfg")
