"""C12 - Requested error-correction strength is what the symbol really carries.
model phase : QR format words decode uniquely and block-table laws (MC_QRFormat); Aztec layer rule leaves >= the requested percentage (MC_Aztec); PDF417 / DataMatrix tables (MC_PDF417, MC_DM)
trace valid.: the readers recover the declared level from the symbol itself (both QR format copies, PDF417 row indicators of every row, Aztec mode message) and count/validate
              the check words: tags level, ecc-percent and the Reed-Solomon / format / indicator / length conjuncts of the readers"""
import vlib, onedim, gen, encconf
import C01, C02, C03

TAGS = ("level", "ecc-percent", "structure-reed-solomon", "structure-format-info", "structure-row-indicators", "structure-length-descriptor",
        "structure-mode-message-rs", "structure-mode-message-words", "structure-mode-message-size", "structure-module-count")


def c12_jobs(rng, quick):
    jobs = []

    def add(sym, c, p):
        jobs.append(gen.enc(sym, c if isinstance(c, (bytes, list)) else onedim.U(c), p))
    for v in range(1, 41):
        for level in range(4):
            md = rng.choice([1, 2, 4])
            n = max(0, C01.cap(v, level, md) - rng.randint(0, 3))
            add("qr", C01.filler(rng, md, n, 1), (level, {1: 1, 2: 2, 4: 3}[md]))
    # many small symbols per level: every (level, mask) format word should occur (the mask depends on the content)
    for level in range(4):
        for _ in range(120 if quick else 400):
            add("qr", C01.filler(rng, rng.choice([1, 2, 4]), rng.randint(1, 14), 1), (level, 0))
    # the same content at every level in turn (and back): the level carried must follow the level requested from call to call
    for c, mode in (("01234567", 1), ("01234567", 0), ("HELLO WORLD", 2), ("HELLO WORLD", 0), ("hello world", 3), ("hello world", 0), ("7" * 60, 1), ("A1" * 40, 2)):
        for level in (0, 1, 2, 3, 3, 2, 1, 0, 2, 0, 3, 1):
            add("qr", c, (level, mode))
    for c in ("abc", "PDF417 level sequence 0123456789"):
        for lv in list(range(9)) + list(range(8, -1, -1)):
            add("pdf", c, (lv,))
    for c in (b"Aztec", b"x" * 30):
        for pct in (0, 50, 10, 90, 23, 33, 5, 75, 100, 150, 255, 256, 257, 300, 512, 1000):
            add("aztec", c, (pct, 0))
            add("aztec", c, (pct, 4))
    for lv in range(9):
        for n in ([2, 40, 300, 900] if quick else [0, 2, 10, 40, 100, 300, 600, 900, 1200, 1500, 1700, 1800]):
            add("pdf", "".join(rng.choice("abcdefgh XYZ") for _ in range(n)), (lv,))
    for pct in ([0, 10, 33, 100] if quick else [0, 1, 10, 23, 33, 50, 75, 100, 150]):
        for n in ([0, 3, 20, 90, 300] if quick else [0, 1, 3, 8, 20, 50, 90, 150, 300, 600, 1000, 1500]):
            add("aztec", bytes(rng.choice(b"abc XYZ012.,") for _ in range(n)), (pct, 0))
        for req in ([-2, 3, 9] if quick else [-4, -3, -2, -1, 1, 2, 3, 5, 8, 9, 15, 22, 23, 32]):
            add("aztec", "Az1", (pct, req))
    # every symbol size once (mode message layer/word fields and check-word count of every size), percentage rotating with the seed
    for k, req in enumerate(list(range(-4, 0)) + list(range(1, 33))):
        add("aztec", "Size %d" % req, ([10, 23, 33, 50][(k + rng.randrange(4)) % 4], req))
    # explicit layer requests filled close to what the requested size can hold, with payloads that need much bit stuffing
    # (long runs of equal bits): the check-word share is smallest exactly at that boundary
    for req in ([-2, -4, 2, 4, 7] if quick else [-1, -2, -3, -4, 1, 2, 3, 4, 5, 6, 8, 9, 12, 16, 22, 23, 27, 32]):
        L, compact = abs(req), req < 0
        tot = ((88 if compact else 112) + 16 * L) * L
        for pct in ((23, 33) if quick else (0, 10, 23, 33, 50, 100)):
            base = tot / (1 + pct / 100.0) / 8.0
            for frac in ((0.80, 0.86, 0.90, 0.94, 0.98) if quick else (0.70, 0.76, 0.80, 0.83, 0.86, 0.88, 0.90, 0.92, 0.94, 0.96, 0.98, 1.0)):
                n = max(1, int(base * frac) - 3)
                for fill in ((0x00,), (0xFF,), (0x00, 0xFF)) if not quick else ((0x00,), (0xFF,)):
                    add("aztec", bytes(fill[i % len(fill)] for i in range(n)), (pct, req))
    for n in (C02.NDATA if not quick else C02.NDATA[:16] + [1050, 1558]):
        add("dm", C02.recipe(rng, 1, n), ())
    return jobs


def wanted(ev, tag):
    return tag in TAGS


def run(tier):
    chk = vlib.Check("C12", tier)
    quick = tier == "quick"
    chk.add_model([dict(module="MC_QRFormat.tla", cfg="MC_QRFormat.cfg", workers=4, timeout=3000, heap="6g"),
                   dict(module="MC_Aztec.tla", cfg="MC_Aztec.cfg", workers=4, heap="6g"),
                   dict(module="MC_AztecSel.tla", cfg="MC_AztecSel_quick.cfg" if quick else "MC_AztecSel_thorough.cfg", workers=6, timeout=3000, heap="4g"),
                   dict(module="MC_PDF417.tla", cfg="MC_PDF417.cfg", workers=4, heap="6g")])
    drive = vlib.build_harness(chk.work)
    jobs = c12_jobs(chk.rng, quick)
    for d in encconf.aztec_selection(chk, quick):          # size choices where the real encoder left AztecSel!Select (tools/encconf.py)
        jobs.append(gen.enc("aztec", d["content"], tuple(d["p"])))
    evs, extras = onedim.judge_multi(chk, drive, jobs, wanted, nshards=14 if quick else 16)
    ok = [e for e in evs if e["res"]["kind"] == "ok"]
    chk.cov["symbols_checked"] = len(ok)
    chk.cov["by_family"] = {s: sum(1 for e in ok if e["sym"] == s) for s in ("qr", "pdf", "aztec", "dm")}
    qr_seen = {(t[0], t[1]) for x in extras.get("TraceQR", []) for t in x.get("seen", [])}
    chk.cov["qr_version_level_pairs"] = len(qr_seen)
    chk.cov["qr_level_mask_pairs"] = len({(t[1], t[2]) for x in extras.get("TraceQR", []) for t in x.get("seen", [])})
    chk.cov["pdf_levels"] = sorted({t[2] for x in extras.get("TracePDF", []) for t in x.get("seen", [])})
    chk.cov["aztec_sizes"] = len({(t[0], t[1]) for x in extras.get("TraceAztec", []) for t in x.get("seen", [])})
    ex = next(e for e in ok if e["sym"] == "pdf")
    chk.sample(dict(sym="pdf", level_requested=ex["p"][0], width=ex["res"]["w"], height=ex["res"]["hh"]))
    ex = next(e for e in ok if e["sym"] == "aztec" and len(e["content"]) > 10)
    chk.sample(dict(sym="aztec", pct=ex["p"][0], payload_bytes=len(ex["content"]), size=ex["res"]["w"]))
    chk.assumptions += ["Aztec: 'data bits' are the bits the high-level decoding automaton consumed", "QR/DataMatrix check-word counts are the ISO table values the reader de-interleaves with"]
    return chk.finish()


def replay(path):
    return onedim.replay_multi("C12", path)
