"""C18 - BitList behaves as an append-only bit sequence.
model phase : BitListImpl refines BitList (scaled constants), C18 action properties
replay      : TLC-simulated behaviours of BitList.tla stepped through the real utils.BitList
trace valid.: random long histories on real objects validated against BitList.tla (TraceBitList)"""
import json, os, re
import vlib


def behaviours(chk, num, depth):
    d = vlib.stage_specs(os.path.join(chk.work, "sim"))
    cfg = open(os.path.join(d, "SimBitList.cfg")).read()
    cfg = re.sub(r"Depth = \d+", "Depth = %d" % depth, cfg)
    open(os.path.join(d, "SimBitList.cfg"), "w").write(cfg)
    res = vlib.tlc(d, "SimBitList.tla", "SimBitList.cfg", workers=1, simulate="num=%d" % num, depth=depth + 2,
                   seedv=vlib.seed(), timeout=900)
    out = []
    for m in re.finditer(r'<<"BEHAVIOUR", "(.*)">>', res.out):
        out.append(json.loads(m.group(1).replace('\\"', '"')))
    if len(out) < num // 2:
        raise vlib.Inconclusive("simulation produced %d behaviours\n%s" % (len(out), res.out[-2000:]))
    return out, res


def jobs_from_behaviour(beh, obj):
    jobs = [dict(op="bl", obj=obj, call="New", a=[0], full=True, hist=obj)]
    for c in beh:
        jobs.append(dict(op="bl", obj=obj, call=c["op"], a=c["a"], full=True, hist=obj))
    return jobs


def random_history(rng, obj, nops, target_bits):
    """Long history with bulk appends; full state logged only at a few points (TLC cost is O(len) per event)."""
    jobs = [dict(op="bl", obj=obj, call="New", a=[rng.choice([0, 0, 1, 31, 32, 33, 4095, 4096, 4097])], full=True, hist=obj)]
    n = jobs[0]["a"][0]
    per = max(1, int(target_bits / (0.55 * max(1, nops))))
    for k in range(nops):
        r = rng.random()
        if r < 0.55:
            # bulk append through the variadic AddBit or a run of AddBits/AddByte calls
            m = rng.randint(per // 2, 3 * per // 2 + 1)
            jobs.append(dict(op="bl", obj=obj, call="AddBit", a=[rng.randint(0, 1) for _ in range(m)], full=False, hist=obj))
            n += m
        elif r < 0.65:
            k_ = rng.randint(0, 31)
            v_ = rng.randint(0, 2 ** 31 - 1)
            if rng.random() < 0.15:        # field widths up to the 255 the byte-typed count admits, negative values (sign extension)
                k_ = rng.choice([32, 33, 40, 63, 64, 65, 66, 100, 128, 200, 255])
                v_ = rng.choice([0, 1, 2 ** 31 - 1, -1, -5, 12345, -(2 ** 31) + 1])
            jobs.append(dict(op="bl", obj=obj, call="AddBits", a=[v_, k_], full=False, hist=obj))
            n += k_
        elif r < 0.75:
            jobs.append(dict(op="bl", obj=obj, call="AddByte", a=[rng.randint(0, 255)], full=False, hist=obj))
            n += 8
        elif r < 0.85 and n > 0:
            jobs.append(dict(op="bl", obj=obj, call="SetBit", a=[rng.choice([0, n - 1, rng.randrange(n), (n // 32) * 32 - 1 if n >= 32 else 0]), rng.randint(0, 1)], full=False, hist=obj))
        elif r < 0.92 and n > 0:
            jobs.append(dict(op="bl", obj=obj, call="GetBit", a=[rng.choice([0, n - 1, rng.randrange(n)])], full=False, hist=obj))
        elif r < 0.96:
            jobs.append(dict(op="bl", obj=obj, call=rng.choice(["GetBytes", "IterateBytes"]), a=[], full=False, hist=obj))
        else:
            jobs.append(dict(op="bl", obj=obj, call="Len", a=[], full=False, hist=obj))
    jobs.append(dict(op="bl", obj=obj, call="GetBytes", a=[], full=True, hist=obj))
    jobs.append(dict(op="bl", obj=obj, call="IterateBytes", a=[], full=False, hist=obj))
    return jobs


def growth_schedules(chk):
    """capacity schedules of the implementation's growth rule with the real constants, computed by TLC from BitListImpl.tla"""
    d = vlib.stage_specs(os.path.join(chk.work, "growth"))
    res = vlib.tlc(d, "MC_BitListGrowth.tla", "MC_BitListGrowth.cfg", workers=1, timeout=300)
    if not res.ok:
        raise vlib.Inconclusive("spec error: MC_BitListGrowth\n" + res.out[-1500:])
    out = [json.loads(m.group(1).replace('\\"', '"')) for m in re.finditer(r'<<"SCHEDULE", "(.*)">>', res.out)]
    chk.cov["states"] += res.distinct
    chk.cov["transitions"] += res.generated
    return out


def boundary_histories(rng, scheds, quick, first_obj):
    """operation sequences that straddle every capacity boundary (bit index = end of the backing slice) the model predicts"""
    jobs, obj = [], first_obj
    for sc in scheds:
        n0 = sc["n0"]
        if quick and n0 not in (0, 33, 4097):
            continue
        for cap in sc["caps"][:4 if quick else 6]:
            B = cap * 32
            for r in ([1, 9, 31] if quick else [1, 2, 7, 8, 9, 16, 24, 31]):
                for kind in ("AddBits", "AddBitsZero", "AddBitsLow", "AddByte", "AddBit"):
                    obj += 1
                    h = [dict(op="bl", obj=obj, call="New", a=[n0], full=False, hist=obj)]
                    need = B - r - n0
                    if need < 0:
                        continue
                    h.append(dict(op="bl", obj=obj, call="AddByteN", a=[rng.choice([0xA5, 0xFF, 0x3C]), need // 8], full=False, hist=obj))
                    if need % 8:
                        h.append(dict(op="bl", obj=obj, call="AddBit", a=[rng.randint(0, 1) for _ in range(need % 8)], full=False, hist=obj))
                    if kind == "AddBits":
                        k = min(31, r + rng.randint(1, 12))
                        h.append(dict(op="bl", obj=obj, call="AddBits", a=[rng.randint(2 ** (k - 1), 2 ** k - 1), k], full=False, hist=obj))
                    elif kind in ("AddBitsZero", "AddBitsLow"):        # a field of zeros (or with only its last bit set) across the boundary, read back at once
                        k = min(31, r + rng.randint(1, 12))
                        h.append(dict(op="bl", obj=obj, call="AddBits", a=[0 if kind == "AddBitsZero" else 1, k], full=False, hist=obj))
                    elif kind == "AddByte":
                        h.append(dict(op="bl", obj=obj, call="AddByte", a=[rng.choice([0xFF, 0x81, 0xA5])], full=False, hist=obj))
                        h.append(dict(op="bl", obj=obj, call="AddByte", a=[0xFF], full=False, hist=obj))
                        h.append(dict(op="bl", obj=obj, call="AddByte", a=[0xFF], full=False, hist=obj))
                        h.append(dict(op="bl", obj=obj, call="AddByte", a=[0xFF], full=False, hist=obj))
                    else:
                        h.append(dict(op="bl", obj=obj, call="AddBit", a=[1] * (r + 3), full=False, hist=obj))
                    length = B - r + (min(31, r + 12) if False else 0)
                    length = n0 + (need // 8) * 8 + (need % 8)
                    for x in h:
                        if x["call"] == "AddBits":
                            length += x["a"][1]
                        elif x["call"] == "AddByte":
                            length += 8
                        elif x["call"] == "AddBit" and x is h[-1]:
                            length += len(x["a"])
                    for idx in (B - r - 1, B - r, B - 1, B, B + 1):
                        if 0 <= idx < length:
                            h.append(dict(op="bl", obj=obj, call="GetBit", a=[idx], full=False, hist=obj))
                    h.append(dict(op="bl", obj=obj, call=rng.choice(["GetBytes", "IterateBytes"]), a=[], full=False, hist=obj))
                    jobs += h
    return jobs


def slow_consumer_histories(first_obj):
    """IterateBytes drained slowly: one long pause, and many short ones (together longer than any plausible idle timer)"""
    jobs = []
    for k, arg in enumerate(([2300], [0, 60, 45])):
        obj = first_obj + k
        jobs.append(dict(op="bl", obj=obj, call="New", a=[0], full=False, hist=obj))
        jobs.append(dict(op="bl", obj=obj, call="AddByteN", a=[0xA5, 130], full=False, hist=obj))
        jobs.append(dict(op="bl", obj=obj, call="AddBits", a=[5, 3], full=False, hist=obj))
        jobs.append(dict(op="bl", obj=obj, call="IterateBytes", a=arg, full=False, hist=obj))
    return jobs


def key_of(ev, why):
    return "bitlist call=%s why=%s" % (ev.get("call"), why)


def run(tier):
    chk = vlib.Check("C18", tier)
    quick = tier == "quick"
    runs = [dict(module="MC_BitListRefine.tla", cfg="MC_BitListRefine_small12.cfg" if quick else "MC_BitListRefine_small18.cfg",
                 workers=6 if quick else 10, timeout=3000, heap="6g"),
            dict(module="MC_BitListRefine.tla", cfg="MC_BitListRefine_long.cfg", workers=4, timeout=1500)]
    chk.add_model(runs)
    chk.cov["apalache_BitIndexLemma"] = vlib.apalache(chk.work, "obj/BitIndexLemma.tla")
    drive = vlib.build_harness(chk.work)
    # replay: spec -> code
    behs, simres = behaviours(chk, 150 if quick else 3000, 30 if quick else 60)
    jobs = []
    for i, b in enumerate(behs):
        jobs += jobs_from_behaviour(b, i + 1)
    # trace validation: code -> spec, long random histories crossing the 32-bit word and 128/1024-word growth boundaries
    nh = 8 if quick else 60
    for h in range(nh):
        target = [5000, 40000, 70000, 140000][h % 4] if not quick else [3000, 9000, 40000, 140000][h % 4]
        jobs += random_history(chk.rng, 100000 + h, 120 if quick else 250, target)
    scheds = growth_schedules(chk)
    bj = boundary_histories(chk.rng, scheds, quick, 200000) + slow_consumer_histories(900000)
    jobs += bj
    chk.cov["growth_boundary_histories"] = len({j["hist"] for j in bj})
    evs = vlib.run_drive(drive, jobs, chk.work)
    shards = vlib.shard(evs, 8 if quick else 16, key=lambda e: e["hist"])
    acc, bad, st, tr = vlib.validate_traces(chk.work, "TraceBitList", "TraceBitList.cfg", shards, timeout=3000)
    chk.cov["traces_validated_against_impl"] = acc
    chk.cov["states"] += st
    chk.cov["transitions"] += tr
    chk.cov["replayed_behaviours"] = len(behs)
    chk.cov["random_histories"] = nh
    chk.cov["max_bits_reached"] = max(e["res"].get("len", 0) for e in evs)
    chk.cov["calls_by_kind"] = {}
    for e in evs:
        chk.cov["calls_by_kind"][e["call"]] = chk.cov["calls_by_kind"].get(e["call"], 0) + 1
    chk.sample(dict(behaviour_from_TLC=behs[0][:6]))
    def short(x):
        if isinstance(x, list):
            return x[:12] + (["...%d more" % (len(x) - 12)] if len(x) > 12 else [])
        if isinstance(x, dict):
            return {k: short(v) for k, v in x.items()}
        return x
    chk.sample(dict(event=short(evs[-1])))
    # a bad entry is the real object's own answer disagreeing with the spec on a call inside the domain: reproduce alone
    for b in bad[:50]:
        if b["why"] in ("outside-domain-or-unknown-call", "unknown-event"):
            raise vlib.Inconclusive("generator produced a call outside the property's domain: %r" % {k: v for k, v in b["event"].items() if k != "res"})
        hist = [j for j in jobs if j["hist"] == b["event"]["hist"]]
        sub = vlib.run_drive(drive, hist, chk.work, name="repro")
        a2, bad2, _, _ = vlib.validate_traces(chk.work, "TraceBitList", "TraceBitList.cfg", [sub])
        if bad2:
            chk.report(key_of(bad2[0]["event"], bad2[0]["why"]), "BitList %s disagrees with the bit-sequence model (%s)" %
                       (bad2[0]["event"]["call"], bad2[0]["why"]), dict(jobs=hist[:bad2[0]["l"]]))
        else:
            raise vlib.Inconclusive("unreproduced rejection at event %r" % b["event"]["i"])
    chk.assumptions += ["TLC, SANY, CommunityModules Json/SequencesExt overrides", "harness/cmd/drive bl op (calls the methods, logs GetBit for every index)",
                        "SetBit/GetBit at or beyond Len are outside the property and not generated"]
    return chk.finish()


def replay(path):
    r = json.load(open(path))["replay"]
    chk = vlib.Check("C18", "quick")
    drive = vlib.build_harness(chk.work)
    evs = vlib.run_drive(drive, r["jobs"], chk.work)
    acc, bad, _, _ = vlib.validate_traces(chk.work, "TraceBitList", "TraceBitList.cfg", [evs])
    for b in bad:
        print("REPRODUCED l=%d why=%s call=%s a=%s" % (b["l"], b["why"], b["event"].get("call"), str(b["event"].get("a"))[:80]))
    return 1 if bad else 0
