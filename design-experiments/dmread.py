import json,sys,random,subprocess
SIZES=[(10,1,3,5,1),(12,1,5,7,1),(14,1,8,10,1),(16,1,12,12,1),(18,1,18,14,1),(20,1,22,18,1),(22,1,30,20,1),(24,1,36,24,1),(26,1,44,28,1),
(32,2,62,36,1),(36,2,86,42,1),(40,2,114,48,1),(44,2,144,56,1),(48,2,174,68,1),(52,2,204,84,2),(64,4,280,112,2),(72,4,368,144,4),(80,4,456,192,4),
(88,4,576,224,4),(96,4,696,272,4),(104,4,816,336,6),(120,6,1050,408,6),(132,6,1304,496,8),(144,6,1558,620,10)]
EXP=[0]*512; LOG=[0]*256
x=1
for i in range(255):
    EXP[i]=x; LOG[x]=i; x<<=1
    if x&256: x^=301
for i in range(255,512): EXP[i]=EXP[i-255]
def mul(a,b): return 0 if a==0 or b==0 else EXP[LOG[a]+LOG[b]]
def synd(cw,k):
    a=0
    for c in cw: a=mul(a,EXP[k])^c
    return a
def placement(nrow,ncol):
    arr={}  # (r,c)->(chr,bit) bit 1..8
    def module(r,c,ch,b):
        if r<0: r+=nrow; c+=4-((nrow+4)%8)
        if c<0: c+=ncol; r+=4-((ncol+4)%8)
        assert (r,c) not in arr,('dup',r,c)
        arr[(r,c)]=(ch,b)
    def utah(r,c,ch):
        module(r-2,c-2,ch,1);module(r-2,c-1,ch,2);module(r-1,c-2,ch,3);module(r-1,c-1,ch,4)
        module(r-1,c,ch,5);module(r,c-2,ch,6);module(r,c-1,ch,7);module(r,c,ch,8)
    def c1(ch):
        module(nrow-1,0,ch,1);module(nrow-1,1,ch,2);module(nrow-1,2,ch,3);module(0,ncol-2,ch,4)
        module(0,ncol-1,ch,5);module(1,ncol-1,ch,6);module(2,ncol-1,ch,7);module(3,ncol-1,ch,8)
    def c2(ch):
        module(nrow-3,0,ch,1);module(nrow-2,0,ch,2);module(nrow-1,0,ch,3);module(0,ncol-4,ch,4)
        module(0,ncol-3,ch,5);module(0,ncol-2,ch,6);module(0,ncol-1,ch,7);module(1,ncol-1,ch,8)
    def c3(ch):
        module(nrow-3,0,ch,1);module(nrow-2,0,ch,2);module(nrow-1,0,ch,3);module(0,ncol-2,ch,4)
        module(0,ncol-1,ch,5);module(1,ncol-1,ch,6);module(2,ncol-1,ch,7);module(3,ncol-1,ch,8)
    def c4(ch):
        module(nrow-1,0,ch,1);module(nrow-1,ncol-1,ch,2);module(0,ncol-3,ch,3);module(0,ncol-2,ch,4)
        module(0,ncol-1,ch,5);module(1,ncol-3,ch,6);module(1,ncol-2,ch,7);module(1,ncol-1,ch,8)
    ch=1; row=4; col=0; corners=[]
    while True:
        if row==nrow and col==0: c1(ch); ch+=1; corners.append(1)
        if row==nrow-2 and col==0 and ncol%4: c2(ch); ch+=1; corners.append(2)
        if row==nrow-2 and col==0 and ncol%8==4: c3(ch); ch+=1; corners.append(3)
        if row==nrow+4 and col==2 and not ncol%8: c4(ch); ch+=1; corners.append(4)
        while True:
            if row<nrow and col>=0 and (row,col) not in arr: utah(row,col,ch); ch+=1
            row-=2; col+=2
            if not(row>=0 and col<ncol): break
        row+=1; col+=3
        while True:
            if row>=0 and col<ncol and (row,col) not in arr: utah(row,col,ch); ch+=1
            row+=2; col-=2
            if not(row<nrow and col>=0): break
        row+=3; col+=1
        if not(row<nrow or col<ncol): break
    fixed=False
    if (nrow-1,ncol-1) not in arr:
        fixed=True
    return arr,ch-1,corners,fixed
def read(rows):
    n=len(rows); sz=[s for s in SIZES if s[0]==n]; assert sz and all(len(r)==n for r in rows)
    _,reg,ndata,necc,nblk=sz[0]
    m=lambda x,y: rows[y][x]=='1'
    rs=n//reg-2  # region data size
    mat={}
    for ry in range(reg):
        for rx in range(reg):
            x0=rx*(rs+2); y0=ry*(rs+2)
            for i in range(rs+2):
                assert m(x0,y0+i),'L left'
                assert m(x0+i,y0+rs+1),'L bottom'
                assert m(x0+i,y0)==(i%2==0),'clock top'
                assert m(x0+rs+1,y0+i)==(i%2==1),('clock right',i)
            for y in range(rs):
                for x in range(rs):
                    mat[(ry*rs+y,rx*rs+x)]=m(x0+1+x,y0+1+y)
    N=rs*reg
    arr,nch,corners,fixed=placement(N,N)
    assert nch==ndata+necc,(nch,ndata,necc)
    cw=[0]*nch
    for (r,c),(ch,b) in arr.items():
        if mat[(r,c)]: cw[ch-1]|=1<<(8-b)
    if fixed:
        assert mat[(N-1,N-1)] and mat[(N-2,N-2)] and not mat[(N-1,N-2)] and not mat[(N-2,N-1)],'fixed pattern'
    # blocks
    e=necc//nblk
    for b in range(nblk):
        blk=cw[b:ndata:nblk]+cw[ndata+b::nblk]
        for s in range(1,e+1): assert synd(blk,s)==0,('rs',b,s)
    data=cw[:ndata]
    out=bytearray(); i=0; shift=False
    while i<len(data):
        c=data[i]; i+=1
        if shift: out.append(c-1+128); shift=False; continue
        if c==129:
            # padding: rest randomized 129
            while i<len(data):
                pos=i+1; R=(149*pos)%253+1
                v=data[i]-R
                if v<1: v+=254
                assert v==129,('pad',i,data[i]); i+=1
            break
        if 1<=c<=128: out.append(c-1)
        elif 130<=c<=229: out+=b'%02d'%(c-130)
        elif c==235: shift=True
        else: raise AssertionError('cw %d'%c)
    assert not shift
    return dict(n=n,out=bytes(out),corners=corners,fixed=fixed,ncw=sum(1 for _ in data))
def enclen(s):
    i=0;n=0
    while i<len(s):
        if 48<=s[i]<=57 and i+1<len(s) and 48<=s[i+1]<=57: i+=2;n+=1
        elif s[i]>127: i+=1;n+=2
        else: i+=1;n+=1
    return n
if __name__=='__main__':
    random.seed(int(sys.argv[1]) if len(sys.argv)>1 else 1)
    for s in SIZES:
        N=s[0]-2*s[1]
        arr,nch,corners,fixed=placement(N,N)
        print(s[0],N,nch,s[2]+s[3],corners,fixed)
    cases=[]
    targets=[s[2] for s in SIZES]
    for t in targets:
        for d in (-1,0):
            n=t+d
            if n<=0: continue
            kind=random.randrange(3)
            if kind==0: s=bytes(random.choice(b'ABCxyz !') for _ in range(n))
            elif kind==1: s=b''.join(b'%02d'%random.randrange(100) for _ in range(n))
            else:
                s=bytearray()
                k=n
                while k>0:
                    if k>=2 and random.random()<0.4: s.append(random.randrange(128,256)); k-=2
                    else: s.append(random.choice(b'Aa#\x00\x7f')); k-=1
                s=bytes(s)
            cases.append(s)
    for t in range(100):
        n=random.randint(1,random.choice([5,50,400,1600]))
        cases.append(bytes(random.randrange(256) for _ in range(n)))
    inp=''.join('dm %s\n'%s.hex() for s in cases)
    res=subprocess.run(['./dump/dump'],input=inp.encode(),capture_output=True).stdout.decode().splitlines()
    ok=0;err=0;sizes=set()
    for s,line in zip(cases,res):
        r=json.loads(line)
        if 'err' in r:
            err+=1; assert enclen(s)>1558,('reject',len(s)); continue
        try: d=read(r['rows'])
        except AssertionError as e: print('FAIL',len(s),e); continue
        if d['out']!=s: print('MISMATCH',s[:20],d['out'][:20])
        else: ok+=1
        sizes.add(d['n'])
        mins=[z[0] for z in SIZES if z[2]>=enclen(s)][0]
        assert mins==d['n'],('minimal',mins,d['n'])
    print('ok',ok,'err',err,'sizes',len(sizes))
