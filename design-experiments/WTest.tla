---- MODULE WTest ----
EXTENDS Integers, Sequences, TLC, FiniteSets, SequencesExt
Dim == 177
\* zigzag order of all modules except column 6: index i (0-based) -> <<x,y>>
Pos(i) == LET pair == i \div (2*Dim)          \* column pair index from right
              r == i % (2*Dim)
              xr == Dim - 1 - 2*pair
              x0 == IF xr <= 6 THEN xr - 1 ELSE xr   \* skip timing column
              up == pair % 2 = 0
              yy == r \div 2
              y == IF up THEN Dim - 1 - yy ELSE yy
              x == x0 - (r % 2)
          IN <<x, y>>
All == [i \in 1..(Dim*(Dim-1)) |-> Pos(i-1)]
IsFn(p) == (p[1] < 9 /\ p[2] < 9) \/ (p[1] > Dim - 9 /\ p[2] < 9) \/ (p[1] < 9 /\ p[2] > Dim-9) \/ p[2] = 6
Order == SelectSeq(All, LAMBDA p : ~IsFn(p))
M == [x \in 0..Dim-1 |-> [y \in 0..Dim-1 |-> (x*7 + y*13 + x*y) % 2]]
Bits == [i \in 1..Len(Order) |-> LET p == Order[i] IN (M[p[1]][p[2]] + ((p[1]+p[2]) % 2)) % 2]
NCW == Len(Bits) \div 8
CW == [k \in 1..NCW |-> LET b == 8*(k-1) IN Bits[b+1]*128 + Bits[b+2]*64 + Bits[b+3]*32 + Bits[b+4]*16 + Bits[b+5]*8 + Bits[b+6]*4 + Bits[b+7]*2 + Bits[b+8]]
ASSUME PrintT(<<Len(Order), NCW, CW[1], CW[NCW]>>)
VARIABLE l
Init == l = 1
Next == l < 5 /\ l' = l+1 /\ CW[l] >= 0
Spec == Init /\ [][Next]_l
====
