import json,sys,random,subprocess
def mkgf(pp,size):
    EXP=[0]*(2*size); LOG=[0]*size; x=1
    for i in range(size-1):
        EXP[i]=x; LOG[x]=i; x<<=1
        if x&size: x^=pp
    for i in range(size-1,2*size): EXP[i]=EXP[i-(size-1)]
    return EXP,LOG,size
GF={4:mkgf(0x13,16),6:mkgf(0x43,64),8:mkgf(0x12D,256),10:mkgf(0x409,1024),12:mkgf(0x1069,4096)}
def synd(gf,cw,k):
    EXP,LOG,size=gf; a=0
    for c in cw:
        a=(0 if a==0 else EXP[LOG[a]+k])^c
    return a
def rsok(ws,cw,necc):
    return all(synd(GF[ws],cw,k)==0 for k in range(1,necc+1))
UP=[None,' ']+[chr(65+i) for i in range(26)]+['LL','ML','DL','BS']   # 28 LL,29 ML,30 DL,31 B/S
LO=[None,' ']+[chr(97+i) for i in range(26)]+['US','ML','DL','BS']
MI=[None,' ']+[chr(i) for i in range(1,14)]+[chr(27),chr(28),chr(29),chr(30),chr(31),'@','\\','^','_','`','|','~',chr(127),'LL','UL','PL','BS']
PU=[None,'\r','\r\n','. ',', ',': ','!','"','#','$','%','&',"'",'(',')','*','+',',','-','.','/',':',';','<','=','>','?','[',']','{','}','UL']
DI=[None,' ']+[chr(48+i) for i in range(10)]+[',','.','UL','US']
TAB={'U':UP,'L':LO,'M':MI,'P':PU,'D':DI}
def hldecode(bits,WS=12):
    pos=0; out=bytearray(); mode='U'; shift=None
    def take(n):
        nonlocal pos
        v=int(''.join(map(str,bits[pos:pos+n])),2); pos+=n; return v
    while True:
        cur=shift or mode
        w=4 if cur=='D' else 5
        if len(bits)-pos<w: break
        if cur=='B': pass
        v=take(w)
        t=TAB[cur][v]
        wasshift=shift is not None; shift=None
        if t is None:
            # P/S (code 0) in U,L,M,D ; in P code 0 is FLG(n)
            assert cur!='P','FLG'
            shift='P'; assert not wasshift; continue
        if t=='BS':
            start=pos-5
            tail=bits[start:]
            if all(b==1 for b in tail) and len(tail)<WS: pos=start; break
            if len(bits)-pos<5: break
            n=take(5)
            if n==0:
                if len(bits)-pos<11: break
                n=take(11)+31
            for _ in range(n):
                if len(bits)-pos<8: pos=len(bits); raise AssertionError('bs overrun')
                out.append(take(8))
            continue
        if t in('LL','ML','DL','UL','PL'):
            assert not wasshift
            mode=t[0]; continue
        if t=='US':
            shift='U'; continue
        out+=t.encode('latin1')
    # remaining bits must be all 1 padding? (accept anything shorter than a code)
    return bytes(out),pos
def read(rows):
    gridbad=set()
    n=len(rows); c=n//2
    m=lambda x,y: rows[y][x]=='1'
    compact = m(c-5,c-5) and n in(15,19,23,27)
    s=5 if compact else 7
    # bullseye
    for y in range(-(s-1),s):
        for x in range(-(s-1),s):
            r=max(abs(x),abs(y))
            assert m(c+x,c+y)==(r%2==0),('bullseye',x,y)
    # orientation
    exp={(-s,-s):1,(-s+1,-s):1,(-s,-s+1):1,(s,-s):1,(s,-s+1):1,(s-1,-s):0,(s,s-1):1,(s,s):0,(s-1,s):0,(-s,s):0,(-s+1,s):0,(-s,s-1):0}
    for (dx,dy),v in exp.items(): assert m(c+dx,c+dy)==bool(v),('orient',dx,dy)
    # mode message clockwise from top-left
    if compact:
        offs=[c-3+i for i in range(7)]
    else:
        offs=[c-5+i+i//5 for i in range(10)]
    mm=[]
    mm+=[m(o,c-s) for o in offs]
    mm+=[m(c+s,o) for o in offs]
    mm+=[m(o,c+s) for o in reversed(offs)]
    mm+=[m(c-s,o) for o in reversed(offs)]
    mm=[1 if b else 0 for b in mm]
    words=[int(''.join(map(str,mm[4*i:4*i+4])),2) for i in range(len(mm)//4)]
    assert rsok(4,words,5 if compact else 6),'mode rs'
    if compact:
        layers=(words[0]>>2)+1; nd=((words[0]&3)<<4|words[1])+1
        assert n==11+4*layers,('size',n,layers)
        base=n
        amap=list(range(base))
    else:
        v=(words[0]<<12)|(words[1]<<8)|(words[2]<<4)|words[3]
        layers=(v>>11)+1; nd=(v&0x7ff)+1
        base=14+4*layers
        size=base+1+2*((base//2-1)//15)
        assert n==size,('size',n,size,layers)
        # reference grid
        for k in range(-(c//16)*16,c+1,16):
            pass
        lines=[c+16*t for t in range(-(c//16),c//16+1) if 0<=c+16*t<n]
        amap=[i for i in range(n) if i not in lines]
        assert len(amap)==base,(len(amap),base)
        for L in lines:
            for k in range(n):
                if abs(k-c)<=s and abs(L-c)<=s: continue
                exp=((k-c)%2==0)
                gridbad.add(L) if not(m(L,k)==exp and m(k,L)==exp) else None
    ws=[None,6,6]+[8]*6+[10]*14+[12]*10
    w=ws[layers]
    tot=((88 if compact else 112)+16*layers)*layers
    raw=[]
    for i in range(layers):
        rowSize=(layers-i)*4+(9 if compact else 12)
        low=2*i; high=base-1-2*i
        side=[[],[],[],[]]
        for j in range(rowSize):
            for k in range(2):
                side[0].append(m(amap[low+k],amap[low+j]))
                side[1].append(m(amap[low+j],amap[high-k]))
                side[2].append(m(amap[high-k],amap[high-j]))
                side[3].append(m(amap[high-j],amap[low+k]))
        for sd in side: raw+=[1 if b else 0 for b in sd]
    assert len(raw)==tot,(len(raw),tot)
    pad=tot%w
    assert all(b==0 for b in raw[:pad]),'startpad'
    nw=tot//w
    cw=[int(''.join(map(str,raw[pad+w*i:pad+w*i+w])),2) for i in range(nw)]
    assert nd<=nw,('nd',nd,nw)
    assert rsok(w,cw,nw-nd),'data rs'
    bits=[]
    for x in cw[:nd]:
        assert x!=0 and x!=(1<<w)-1,'allzero/allone word'
        if x==1: bits+=[0]*(w-1)
        elif x==(1<<w)-2: bits+=[1]*(w-1)
        else: bits+=[int(b) for b in format(x,'0%db'%w)]
    out,used=hldecode(bits,w)
    return dict(gridbad=sorted(gridbad),compact=compact,layers=layers,nd=nd,nw=nw,w=w,out=out,used=used,nbits=len(bits))
if __name__=='__main__':
    random.seed(int(sys.argv[1]) if len(sys.argv)>1 else 1)
    cases=[]
    alph=[b'ABC XYZ',b'abc xyz',b'0123456789 ,.',b'\r\n. , : !"#$%&\'()*+,-./:;<=>?[]{}',bytes(range(1,14))+b'\x1b\x1c\x1d\x1e\x1f@\\^_`|~\x7f',bytes(range(128,256))+b'\x00"']
    for t in range(int(sys.argv[2]) if len(sys.argv)>2 else 400):
        n=random.randint(1,random.choice([3,10,40,150,600,1800]))
        k=random.choice([1,2,3,6])
        pool=b''.join(random.sample(alph,k))
        if random.random()<0.3:
            s=bytearray()
            while len(s)<n:
                a=random.choice(alph); s+=bytes(random.choice(a) for _ in range(random.randint(1,40)))
            s=bytes(s[:n])
        else: s=bytes(random.choice(pool) for _ in range(n))
        pct=random.choice([0,10,23,33,50,100])
        lay=0 if random.random()<0.6 else random.choice([-4,-3,-2,-1]+list(range(1,33)))
        cases.append((s,pct,lay))
    inp=''.join('aztec %s %d %d\n'%(s.hex(),p,l) for s,p,l in cases)
    res=subprocess.run(['./dump/dump'],input=inp.encode(),capture_output=True).stdout.decode().splitlines()
    ok=0;err=0;sizes=set();gb={}
    for (s,p,l),line in zip(cases,res):
        r=json.loads(line)
        if 'err' in r: err+=1; continue
        try: d=read(r['rows'])
        except AssertionError as e: print('FAIL',len(s),p,l,e); continue
        if d['out']!=s: print('MISMATCH',s[:20],d['out'][:20],p,l)
        else: ok+=1
        if l!=0: assert (d['compact'],d['layers'])==(l<0,abs(l)),('layers',l,d)
        eccbits=(d['nw']-d['nd'])*d['w']
        assert eccbits>=d['used']*p//100,('ecc',eccbits,d['used'],p)
        sizes.add((d['compact'],d['layers']))
        if d['gridbad']: gb.setdefault((d['layers'],tuple(d['gridbad'])),0); gb[(d['layers'],tuple(d['gridbad']))]+=1
    print('ok',ok,'err',err,'sizes',len(sizes),'gridbad',gb)
