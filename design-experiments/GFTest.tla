---- MODULE GFTest ----
EXTENDS Integers, Sequences, TLC, Json, Bitwise, Folds, Functions, FiniteSets

\* GF(256) with primitive polynomial pp
RECURSIVE ALogSeq(_,_,_)
ALogSeq(pp, n, acc) ==
  IF n = 0 THEN acc
  ELSE LET last == acc[Len(acc)]
           x2 == last * 2
           nx == IF x2 >= 256 THEN (x2 ^^ pp) % 256 ELSE x2   \* xor with pp and mask
       IN ALogSeq(pp, n-1, Append(acc, nx))

ALog285 == ALogSeq(285, 254, <<1>>)   \* ALog285[i+1] = alpha^i
Log285 == [v \in 1..255 |-> CHOOSE i \in 0..254 : ALog285[i+1] = v]

Mul(a,b) == IF a = 0 \/ b = 0 THEN 0 ELSE ALog285[((Log285[a] + Log285[b]) % 255) + 1]

\* evaluate polynomial (sequence, highest degree first) at alpha^k, Horner
RECURSIVE Horner(_,_,_,_)
Horner(cw, x, i, acc) == IF i > Len(cw) THEN acc ELSE Horner(cw, x, i+1, Mul(acc, x) ^^ cw[i])

Syndrome(cw, k) == Horner(cw, ALog285[(k % 255) + 1], 1, 0)

Data == ndJsonDeserialize("data.ndjson")

VARIABLE l
Init == l = 1
Next == /\ l <= Len(Data)
        /\ LET cw == Data[l].cw
               e == Data[l].ecc
           IN \A k \in 0..(e-1) : Syndrome(cw, k) = 0
        /\ l' = l + 1
Spec == Init /\ [][Next]_l
Accepted == TLCGet("stats").diameter - 1 = Len(Data)
====
