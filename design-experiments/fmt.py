import re
src=open('/repo/qr/encoder.go').read()
def bits(s): return [x.strip()=='true' for x in s.split(',')]
# format infos
blk=src[src.index('var formatInfos'):src.index('func drawFormatInfo')]
cur=None; bad=0; n=0
lvbits={'L':1,'M':0,'Q':3,'H':2}
for line in blk.splitlines():
    m=re.match(r'\s*([LMQH]): \{',line)
    if m: cur=m.group(1)
    m=re.match(r'\s*(\d): \[\]bool\{(.*)\},',line)
    if m:
        mask=int(m.group(1)); b=bits(m.group(2)); val=int(''.join('1' if x else '0' for x in b),2)
        data=(lvbits[cur]<<3)|mask
        rem=data<<10
        for i in range(14,9,-1):
            if rem>>i&1: rem^=0x537<<(i-10)
        exp=((data<<10)|rem)^0x5412
        n+=1
        if exp!=val: bad+=1; print('fmt mismatch',cur,mask,bin(exp),bin(val))
print('format words',n,'bad',bad)
blk=src[src.index('var versionInfoBitsByVersion'):src.index('func drawVersionInfo')]
n=0;bad=0
for m in re.finditer(r'(\d+):\s+\[\]bool\{(.*)\},',blk):
    v=int(m.group(1)); b=bits(m.group(2)); val=int(''.join('1' if x else '0' for x in b),2)
    rem=v<<12
    for i in range(17,11,-1):
        if rem>>i&1: rem^=0x1F25<<(i-12)
    exp=(v<<12)|rem
    n+=1
    if exp!=val: bad+=1; print('ver mismatch',v)
print('version words',n,'bad',bad)
