import json,sys,random,subprocess,re
src=open('/repo/pdf417/codewords.go').read()
tabs=[]
for blk in re.findall(r'\[\]int\{([^{}]*)\}',src):
    tabs.append([int(x,16) for x in re.findall(r'0x[0-9a-fA-F]+',blk)])
assert len(tabs)==3 and all(len(t)==929 for t in tabs),[len(t) for t in tabs]
START=0x1fea8; STOP=0x3fa29
def runs(v,n):
    s=format(v,'0%db'%n); r=[];cur=s[0];k=0
    for ch in s:
        if ch==cur:k+=1
        else:r.append(k);cur=ch;k=1
    r.append(k); return s[0],r
# structural laws
for ti,t in enumerate(tabs):
    assert len(set(t))==929
    for v in t:
        first,r=runs(v,17)
        assert first=='1' and len(r)==8 and all(1<=x<=6 for x in r) and sum(r)==17,(ti,hex(v),r)
        K=(r[0]-r[2]+r[4]-r[6]+9)%9
        assert K==ti*3,(ti,hex(v),K)
print('table structural laws OK; start',runs(START,17),'stop',runs(STOP,18))
INV=[{v:i for i,v in enumerate(t)} for t in tabs]
TEXT_UP=[chr(65+i) for i in range(26)]+[' ','ll','ml','ps']
TEXT_LO=[chr(97+i) for i in range(26)]+[' ','as','ml','ps']
TEXT_MI=list('0123456789&\r\t,:#-.$/+%*=^')+['pl',' ','ll','al','ps']
TEXT_PU=list(';<>@[\\]_`~!\r\t,:\n-.$/"|*()?{}\'')+['al']
assert len(TEXT_MI)==30 and len(TEXT_PU)==30,(len(TEXT_MI),len(TEXT_PU))
def decode(cw):
    out=bytearray(); i=0; mode='text'; sub='U'
    n=len(cw)
    while i<n:
        c=cw[i]
        if c==900: mode='text'; sub='U'; i+=1; continue
        if c in(901,924): mode='byte'; bmode=c; i+=1; 
        elif c==902: mode='num'; i+=1
        elif c==913:
            out.append(cw[i+1]); i+=2; continue
        elif c>=900: raise AssertionError('cw %d'%c)
        if mode=='text':
            vals=[]
            j=i
            while j<n and cw[j]<900: vals+= [cw[j]//30,cw[j]%30]; j+=1
            shift=None
            for idx,v in enumerate(vals):
                cur=shift or sub
                tab={'U':TEXT_UP,'L':TEXT_LO,'M':TEXT_MI,'P':TEXT_PU}[cur]
                t=tab[v]; was=shift; shift=None
                if t=='ps':
                    assert not was
                    if idx==len(vals)-1: break   # pad
                    shift='P'; continue
                if t=='as': shift='U'; continue
                if t in('ll','ml','pl','al'):
                    assert not was or t=='al'
                    sub={'ll':'L','ml':'M','pl':'P','al':'U'}[t]; continue
                out+=t.encode()
            i=j
        elif mode=='byte':
            j=i
            while j<n and cw[j]<900: j+=1
            seg=cw[i:j]; k=0
            if bmode==924:
                assert len(seg)%5==0; groups=len(seg)//5
            else:
                groups=(len(seg)-1)//5 if seg else 0
            for g in range(groups):
                t=0
                for x in seg[k:k+5]: t=t*900+x
                out+=t.to_bytes(6,'big'); k+=5
            for x in seg[k:]: out.append(x)
            i=j; mode='text'  # stays byte until latch; but next must be latch or end
            mode='byte'
            if i<n: assert cw[i]>=900
        elif mode=='num':
            j=i
            while j<n and cw[j]<900: j+=1
            seg=cw[i:j]
            for k in range(0,len(seg),15):
                t=0
                for x in seg[k:k+15]: t=t*900+x
                s=str(t); assert s[0]=='1'; out+=s[1:].encode()
            i=j
    return bytes(out)
def read(rows,level):
    h=len(rows); w=len(rows[0]); assert h%2==0 and (w-1)%17==0
    R=h//2; C=(w-1)//17-4
    allcw=[]
    for r in range(R):
        assert rows[2*r]==rows[2*r+1]
        row=rows[2*r]
        assert int(row[:17],2)==START and int(row[-18:],2)==STOP,'start/stop'
        cl=r%3
        vals=[]
        for k in range(C+2):
            p=int(row[17+17*k:34+17*k],2)
            assert p in INV[cl],('pattern',r,k)
            vals.append(INV[cl][p])
        left,right=vals[0],vals[-1]
        a=(R-1)//3; b=level*3+(R-1)%3; c=C-1
        el,er={0:(a,c),1:(b,a),2:(c,b)}[cl]
        if left!=30*(r//3)+el: bad.add(('left',cl))
        assert right==30*(r//3)+er,('right',r,cl,right)
        allcw+=vals[1:-1]
    k=2<<level
    n=allcw[0]; assert n+k==len(allcw),('len',n,k,len(allcw))
    # RS over GF(929): poly with coefficients allcw (highest first) has roots 3^1..3^k
    for j in range(1,k+1):
        x=pow(3,j,929); acc=0
        for cwv in allcw: acc=(acc*x+cwv)%929
        assert acc==0,('rs',j)
    data=allcw[1:n]
    pad=0
    while data and data[-1]==900: data.pop(); pad+=1
    assert pad<C,('pad',pad,C)
    return dict(R=R,C=C,out=decode(data),pad=pad)
bad=set()
if __name__=='__main__':
    random.seed(int(sys.argv[1]) if len(sys.argv)>1 else 1)
    cases=[]
    pools=[b'ABC XYZ',b'abc xyz',b'0123456789',b'&\r\t,:#-.$/+%*=^',b';<>@[\\]_`~!\n"|()?{}\'',bytes(range(128,256))+b'\x00\x7f\x0b']
    for t in range(int(sys.argv[2]) if len(sys.argv)>2 else 400):
        n=random.randint(1,random.choice([3,10,40,150,600]))
        s=bytearray()
        while len(s)<n:
            a=random.choice(pools); s+=bytes(random.choice(a) for _ in range(random.choice([1,1,2,5,6,7,13,14,30])))
        cases.append((bytes(s[:n]),random.randrange(9)))
    cases.append((b'11;;;\x80hellos',1))
    inp=''.join('pdf %s %d\n'%(s.hex(),l) for s,l in cases)
    res=subprocess.run(['./dump/dump'],input=inp.encode(),capture_output=True).stdout.decode().splitlines()
    ok=0;err=0;shapes=set();mm=0
    for (s,l),line in zip(cases,res):
        r=json.loads(line)
        if 'err' in r: err+=1; continue
        try: d=read(r['rows'],l)
        except AssertionError as e: print('FAIL',len(s),l,e); continue
        if d['out']!=s:
            mm+=1
            if mm<8: print('MISMATCH',s,d['out'])
        else: ok+=1
        shapes.add((d['R'],d['C']))
    print('ok',ok,'mismatch',mm,'err',err,'shapes',len(shapes),'bad',bad)
