---- MODULE JTest ----
EXTENDS Integers, Sequences, TLC, Json, FiniteSets, SequencesExt
Data == ndJsonDeserialize("big.ndjson")
VARIABLE l
Init == l = 1
\* count ones per event by a FoldLeft and compare with logged count; also test string ops
Ones(m) == FoldLeft(LAMBDA acc, x : acc + x, 0, m)
Next == /\ l <= Len(Data)
        /\ Ones(Data[l].m) = Data[l].ones
        /\ \A i \in 1..Len(Data[l].m) : Data[l].m[i] \in {0,1}
        /\ l' = l + 1
Spec == Init /\ [][Next]_l
Accepted == TLCGet("stats").diameter - 1 = Len(Data)
====
