import json,sys,random,subprocess
exec(open('qrtab.py').read().split("bad=0")[0].replace("print(len(rows))",""))
exec(open('align.py').read().split("def repo")[0])
# GF(256)/285
EXP=[0]*512; LOG=[0]*256
x=1
for i in range(255):
    EXP[i]=x; LOG[x]=i; x<<=1
    if x&256: x^=285
for i in range(255,512): EXP[i]=EXP[i-255]
def mul(a,b): return 0 if a==0 or b==0 else EXP[LOG[a]+LOG[b]]
def synd(cw,k):
    a=0
    for c in cw: a=mul(a,EXP[k])^c
    return a
def fnmap(v):
    d=17+4*v
    f=[[False]*d for _ in range(d)]   # f[y][x]
    def mark(x0,y0,w,h):
        for y in range(max(0,y0),min(d,y0+h)):
            for x in range(max(0,x0),min(d,x0+w)): f[y][x]=True
    mark(0,0,9,9); mark(d-8,0,8,9); mark(0,d-8,9,8)
    for i in range(d): f[6][i]=True; f[i][6]=True
    if v>=2:
        P=T[v]
        for cx in P:
            for cy in P:
                if (cx==6 and cy==6) or (cx==6 and cy==P[-1]) or (cx==P[-1] and cy==6): continue
                mark(cx-2,cy-2,5,5)
    if v>=7:
        mark(d-11,0,3,6); mark(0,d-11,6,3)
    return f
def fmtword(lv,mask):
    data=(lv<<3)|mask; rem=data<<10
    for i in range(14,9,-1):
        if rem>>i&1: rem^=0x537<<(i-10)
    return ((data<<10)|rem)^0x5412
MASKS=[lambda x,y:(x+y)%2==0, lambda x,y:y%2==0, lambda x,y:x%3==0, lambda x,y:(x+y)%3==0,
       lambda x,y:(y//2+x//3)%2==0, lambda x,y:(x*y)%2+(x*y)%3==0, lambda x,y:((x*y)%2+(x*y)%3)%2==0, lambda x,y:((x+y)%2+(x*y)%3)%2==0]
ALNUM="0123456789ABCDEFGHIJKLMNOPQRSTUVWXYZ $%*+-./:"
def read(rows):
    d=len(rows); assert all(len(r)==d for r in rows)
    v=(d-17)//4; assert 17+4*v==d and 1<=v<=40
    m=lambda x,y: rows[y][x]=='1'
    # finder patterns
    for (ox,oy) in [(0,0),(d-7,0),(0,d-7)]:
        for y in range(-1,8):
            for x in range(-1,8):
                X=ox+x;Y=oy+y
                if not(0<=X<d and 0<=Y<d): continue
                inside=0<=x<=6 and 0<=y<=6
                exp=inside and (x in(0,6) or y in(0,6) or (2<=x<=4 and 2<=y<=4))
                assert m(X,Y)==exp,('finder',X,Y)
    f=fnmap(v)
    for i in range(8,d-8):
        assert m(i,6)==(i%2==0) and m(6,i)==(i%2==0),'timing'
    if v>=2:
        P=T[v]
        for cx in P:
            for cy in P:
                if (cx==6 and cy==6) or (cx==6 and cy==P[-1]) or (cx==P[-1] and cy==6): continue
                for dy in range(-2,3):
                    for dx in range(-2,3):
                        exp=max(abs(dx),abs(dy))!=1
                        assert m(cx+dx,cy+dy)==exp,'align'
    assert m(8,d-8),'dark'
    # format
    def bit(x,y): return 1 if m(x,y) else 0
    c1=[(8,0),(8,1),(8,2),(8,3),(8,4),(8,5),(8,7),(8,8),(7,8),(5,8),(4,8),(3,8),(2,8),(1,8),(0,8)]  # bit0..bit14
    c2=[(d-1-i,8) for i in range(8)]+[(8,d-15+i) for i in range(8,15)]
    w1=sum(bit(*c1[i])<<i for i in range(15)); w2=sum(bit(*c2[i])<<i for i in range(15))
    assert w1==w2,'fmt copies'
    found=None
    for lv in range(4):
        for mk in range(8):
            if fmtword(lv,mk)==w1: found=(lv,mk)
    assert found,'fmt bch'
    lv,mk=found; level={1:'L',0:'M',3:'Q',2:'H'}[lv]
    if v>=7:
        rem=v<<12
        for i in range(17,11,-1):
            if rem>>i&1: rem^=0x1F25<<(i-12)
        w=(v<<12)|rem
        for i in range(18):
            b=(w>>i)&1
            assert bit(d-11+i%3,i//3)==b and bit(i//3,d-11+i%3)==b,'version info'
    # walk
    bits=[]
    x=d-1; up=True
    while x>0:
        if x==6: x-=1
        ys=range(d-1,-1,-1) if up else range(d)
        for y in ys:
            for xx in (x,x-1):
                if not f[y][xx]:
                    bits.append(bit(xx,y)^(1 if MASKS[mk](xx,y) else 0))
        up=not up; x-=2
    tot=rawmodules(v)
    assert len(bits)==tot,('count',len(bits),tot)
    assert all(b==0 for b in bits[tot-tot%8:]) or True
    rembits=bits[tot-tot%8:]
    cws=[int(''.join(map(str,bits[8*i:8*i+8])),2) for i in range(tot//8)]
    nb=NB[level][v-1]; ec=ECC[level][v-1]; n=len(cws)
    short=nb-n%nb; slen=n//nb-ec
    blocks=[[] for _ in range(nb)]
    k=0
    for i in range(slen+1):
        for b in range(nb):
            if i<slen or b>=short:
                blocks[b].append(cws[k]);k+=1
    for i in range(ec):
        for b in range(nb):
            blocks[b].append(cws[k]);k+=1
    assert k==n
    for b in blocks:
        for s in range(ec): assert synd(b,s)==0,'rs'
    data=[]
    for b in blocks: data+=b[:len(b)-ec]
    bs=''.join(format(c,'08b') for c in data)
    pos=0
    def take(n):
        nonlocal pos
        assert pos+n<=len(bs),'overrun'
        r=int(bs[pos:pos+n],2) if n else 0; pos+=n; return r
    out=b''; modes=[]
    while True:
        if len(bs)-pos<4:
            assert set(bs[pos:])<={'0'}; pos=len(bs); break
        md=take(4)
        if md==0: break
        vc=0 if v<10 else (1 if v<27 else 2)
        if md==1:
            n=take([10,12,14][vc]); modes.append('N')
            s=''
            while n>=3: g=take(10); assert g<1000; s+='%03d'%g; n-=3
            if n==2: g=take(7); assert g<100; s+='%02d'%g
            if n==1: g=take(4); assert g<10; s+='%d'%g
            out+=s.encode()
        elif md==2:
            n=take([9,11,13][vc]); modes.append('A'); s=''
            while n>=2: g=take(11); assert g<2025; s+=ALNUM[g//45]+ALNUM[g%45]; n-=2
            if n==1: g=take(6); assert g<45; s+=ALNUM[g]
            out+=s.encode()
        elif md==4:
            n=take([8,16,16][vc]); modes.append('B')
            out+=bytes(take(8) for _ in range(n))
        else: raise AssertionError('mode %d'%md)
    # after terminator: zero to byte boundary then pads
    if pos<len(bs):
        nb8=(-pos)%8
        assert set(bs[pos:pos+nb8])<={'0'},'align zeros'; pos+=nb8
        i=0
        while pos<len(bs):
            assert take(8)==(236 if i%2==0 else 17),'pad'; i+=1
    return dict(v=v,level=level,mask=mk,modes=modes,out=out,rem=rembits)
if __name__=='__main__':
    random.seed(int(sys.argv[1]) if len(sys.argv)>1 else 1)
    cases=[]
    LV='LMQH'
    for t in range(int(sys.argv[2]) if len(sys.argv)>2 else 300):
        lv=random.randrange(4); mode=random.randrange(4)
        n=random.choice([0,1,2,3,5,10,20,50,100,300,700,1500,2900,4000,7000])
        n=random.randint(0,n)
        if mode==1: s=''.join(random.choice('0123456789') for _ in range(n))
        elif mode==2: s=''.join(random.choice(ALNUM) for _ in range(n))
        elif mode==3: s=bytes(random.randrange(256) for _ in range(n)).decode('latin1').encode('latin1') ; s=s
        else:
            k=random.randrange(3)
            s=''.join(random.choice(['0123456789',ALNUM,'abc xyz09AZ!'][k]) for _ in range(n))
        if isinstance(s,str): s=s.encode()
        cases.append((s,lv,mode))
    inp=''.join('qr %s %d %d\n'%(s.hex() if s else '""',lv,mode) for s,lv,mode in cases).replace('""','')
    # empty content: hex empty -> fields <2; use special
    inp=''.join('qr %s %d %d\n'%(s.hex(),lv,mode) for s,lv,mode in cases if s)
    res=subprocess.run(['./dump/dump'],input=inp.encode(),capture_output=True).stdout.decode().splitlines()
    ok=0;err=0;seen=set();masks=set()
    cs=[c for c in cases if c[0]]
    for (s,lv,mode),line in zip(cs,res):
        r=json.loads(line)
        if 'err' in r: err+=1; continue
        try:
            d=read(r['rows'])
        except AssertionError as e:
            print('FAIL',s[:20],lv,mode,e); continue
        assert d['level']==LV[lv],('level',d['level'],lv)
        if d['out']!=s: print('MISMATCH',s[:30],d['out'][:30],lv,mode)
        else: ok+=1
        seen.add(d['v']); masks.add(d['mask'])
        assert all(b==0 for b in d['rem']) or print('rem nonzero',d['v'],d['rem'])
    print('ok',ok,'err',err,'versions',len(seen),sorted(seen)[-5:],'masks',sorted(masks))
