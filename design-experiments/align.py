import math
T={2:[6,18],3:[6,22],4:[6,26],5:[6,30],6:[6,34],7:[6,22,38],8:[6,24,42],9:[6,26,46],10:[6,28,50],11:[6,30,54],12:[6,32,58],13:[6,34,62],14:[6,26,46,66],15:[6,26,48,70],16:[6,26,50,74],17:[6,30,54,78],18:[6,30,56,82],19:[6,30,58,86],20:[6,34,62,90],21:[6,28,50,72,94],22:[6,26,50,74,98],23:[6,30,54,78,102],24:[6,28,54,80,106],25:[6,32,58,84,110],26:[6,30,58,86,114],27:[6,34,62,90,118],28:[6,26,50,74,98,122],29:[6,30,54,78,102,126],30:[6,26,52,78,104,130],31:[6,30,56,82,108,134],32:[6,34,60,86,112,138],33:[6,30,58,86,114,142],34:[6,34,62,90,118,146],35:[6,30,54,78,102,126,150],36:[6,24,50,76,102,128,154],37:[6,28,54,80,106,132,158],38:[6,32,58,84,110,136,162],39:[6,26,54,82,110,138,166],40:[6,30,58,86,114,142,170]}
def repo(v):
    if v==1: return []
    first=6; last=(v-1)*4+21-7
    space=float(last-first)
    count=int(math.ceil(space/28))+1
    res=[0]*count; res[0]=first; res[-1]=last
    if count>2:
        step=int(math.ceil(float(last-first)/float(count-1)))
        if step%2==1:
            frac=float(last-first)/float(count-1)
            x=math.modf(frac)[0]
            frac=math.ceil(frac) if x>=0.5 else math.floor(frac)
            if int(frac)%2==0: step-=1
            else: step+=1
        for i in range(1,count-1):
            res[i]=last-step*(count-1-i)
    return res
def nayuki(v):
    if v==1: return []
    n=v//7+2
    step=26 if v==32 else (v*4+n*2+1)//(n*2-2)*2
    r=[6]
    pos=v*4+10
    out=[]
    for i in range(n-1):
        out.insert(0,pos); pos-=step
    return [6]+out
bad=0
for v in range(2,41):
    if not (T[v]==repo(v)==nayuki(v)):
        bad+=1; print(v,T[v],repo(v),nayuki(v))
print('bad',bad)
