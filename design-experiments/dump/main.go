package main

import (
	"bufio"
	"encoding/hex"
	"encoding/json"
	"fmt"
	"image/color"
	"os"
	"strconv"
	"strings"

	"github.com/boombuler/barcode"
	"github.com/boombuler/barcode/aztec"
	"github.com/boombuler/barcode/codabar"
	"github.com/boombuler/barcode/code128"
	"github.com/boombuler/barcode/code39"
	"github.com/boombuler/barcode/code93"
	"github.com/boombuler/barcode/datamatrix"
	"github.com/boombuler/barcode/ean"
	"github.com/boombuler/barcode/pdf417"
	"github.com/boombuler/barcode/qr"
	"github.com/boombuler/barcode/twooffive"
)

// input lines: sym <hexcontent> [p1 [p2]]
func main() {
	sc := bufio.NewScanner(os.Stdin)
	sc.Buffer(make([]byte, 1<<20), 1<<26)
	w := bufio.NewWriter(os.Stdout)
	defer w.Flush()
	for sc.Scan() {
		f := strings.Fields(sc.Text())
		if len(f) < 2 {
			continue
		}
		data, _ := hex.DecodeString(f[1])
		p := []int{0, 0}
		for i := 2; i < len(f) && i < 4; i++ {
			p[i-2], _ = strconv.Atoi(f[i])
		}
		var bc barcode.Barcode
		var err error
		func() {
			defer func() {
				if r := recover(); r != nil {
					err = fmt.Errorf("PANIC %v", r)
				}
			}()
			switch f[0] {
			case "qr":
				bc, err = qr.Encode(string(data), qr.ErrorCorrectionLevel(p[0]), qr.Encoding(p[1]))
			case "dm":
				bc, err = datamatrix.Encode(string(data))
			case "aztec":
				bc, err = aztec.Encode(data, p[0], p[1])
			case "pdf":
				bc, err = pdf417.Encode(string(data), byte(p[0]))
			case "c128":
				bc, err = code128.Encode(string(data))
			case "c39":
				bc, err = code39.Encode(string(data), p[0] == 1, p[1] == 1)
			case "c93":
				bc, err = code93.Encode(string(data), p[0] == 1, p[1] == 1)
			case "codabar":
				bc, err = codabar.Encode(string(data))
			case "ean":
				bc, err = ean.Encode(string(data))
			case "25":
				bc, err = twooffive.Encode(string(data), p[0] == 1)
			}
		}()
		out := map[string]interface{}{"sym": f[0], "data": f[1], "p": p}
		if err != nil || bc == nil {
			out["err"] = fmt.Sprint(err)
		} else {
			b := bc.Bounds()
			rows := make([]string, 0, b.Dy())
			for y := b.Min.Y; y < b.Max.Y; y++ {
				var sb strings.Builder
				for x := b.Min.X; x < b.Max.X; x++ {
					if bc.At(x, y) == color.Black {
						sb.WriteByte('1')
					} else {
						sb.WriteByte('0')
					}
				}
				rows = append(rows, sb.String())
			}
			out["rows"] = rows
			out["content"] = hex.EncodeToString([]byte(bc.Content()))
		}
		j, _ := json.Marshal(out)
		w.Write(j)
		w.WriteByte('\n')
	}
}
