import json,sys,random,subprocess,re
exec(open('c128tab.py').read().split("src=open('/repo/code128")[0])
P128={''.join(('1' if k%2==0 else '0')*int(c) for k,c in enumerate(w)):i for i,w in enumerate(W)}
FN={1:'ñ',2:'ò',3:'ó',4:'ô'}
def read128(row,checksum=True):
    assert (len(row)-2)%11==0
    n=(len(row)-13)//11
    vals=[P128[row[11*i:11*i+11]] for i in range(n)]
    assert row[-13:]=='1100011101011','stop'
    assert vals[0] in(103,104,105)
    if checksum:
        cs=vals[-1]; body=vals[:-1]
        assert (body[0]+sum(i*v for i,v in enumerate(body) if i>0))%103==cs,'check'
    else: body=vals
    st={103:'A',104:'B',105:'C'}[body[0]]; out='';shift=None
    for v in body[1:]:
        cur=shift or st; shift=None
        if cur=='C':
            if v<100: out+='%02d'%v
            elif v==100: st='B'
            elif v==101: st='A'
            elif v==102: out+=FN[1]
            else: raise AssertionError
        else:
            if v<64: out+=chr(32+v)
            elif v<96: out+= chr(v-64) if cur=='A' else chr(v+32)
            elif v==96: out+=FN[3]
            elif v==97: out+=FN[2]
            elif v==98: shift='B' if cur=='A' else 'A'
            elif v==99: st='C'
            elif v==100: 
                if cur=='B': out+=FN[4]
                else: st='B'
            elif v==101:
                if cur=='A': out+=FN[4]
                else: st='A'
            elif v==102: out+=FN[1]
    return out,(cs if checksum else None)
def rl(row): return [(m.group(0)[0],len(m.group(0))) for m in re.finditer(r'1+|0+',row)]
DIG25={'00110':'0','10001':'1','01001':'2','11000':'3','00101':'4','10100':'5','01100':'6','00011':'7','10010':'8','01010':'9'}
def read25(row,inter):
    r=rl(row); ws=['1' if n>=2 else '0' for c,n in r]; assert all(n in(1,2,3) for c,n in r)
    if inter:
        assert ''.join(ws[:4])=='0000' and ''.join(ws[-3:])=='100'
        body=ws[4:-3]; assert len(body)%10==0; out=''
        for i in range(0,len(body),10):
            out+=DIG25[''.join(body[i:i+10:2])]+DIG25[''.join(body[i+1:i+10:2])]
        return out
    else:
        # bars only carry info; spaces narrow
        assert all(n==1 for c,n in r if c=='0')
        bars=[w for (c,n),w in zip(r,ws) if c=='1']
        assert ''.join(bars[:3])=='110' and ''.join(bars[-3:])=='101'
        body=bars[3:-3]; assert len(body)%5==0
        return ''.join(DIG25[''.join(body[i:i+5])] for i in range(0,len(body),5))
CODA={'0':'0000011','1':'0000110','2':'0001001','3':'1100000','4':'0010010','5':'1000010','6':'0100001','7':'0100100','8':'0110000','9':'1001000','-':'0001100','$':'0011000',':':'1000101','/':'1010001','.':'1010100','+':'0010101','A':'0011010','B':'0101001','C':'0001011','D':'0001110'}
ICODA={v:k for k,v in CODA.items()}
def readcoda(row):
    r=rl(row); ws=['1' if n==2 else '0' for c,n in r]; assert all(n in(1,2) for c,n in r)
    out='';i=0
    while i<len(ws):
        out+=ICODA[''.join(ws[i:i+7])]; i+=7
        if i<len(ws): assert ws[i]=='0' and r[i][0]=='0'; i+=1
    return out
if __name__=='__main__':
    random.seed(1); cases=[]
    al=[chr(i) for i in range(128)]+list(FN.values())
    for t in range(600):
        n=random.randint(1,random.choice([2,6,20,80]))
        pools=[al,list('0123456789'),list('0123456789')+[FN[1]],[chr(i) for i in range(32)]+list('AB12'),list('abcAB12')]
        s=''
        while len(s)<n:
            p=random.choice(pools); s+=''.join(random.choice(p) for _ in range(random.randint(1,9)))
        cases.append(('c128',s[:n].encode(),0,0))
    for t in range(200):
        n=random.randint(1,12); s=''.join(random.choice('0123456789') for _ in range(n))
        cases.append(('25',s.encode(),0,0))
        if n%2==0: cases.append(('25',s.encode(),1,0))
        cases.append(('codabar',(random.choice('ABCD')+''.join(random.choice('0123456789-$:/.+') for _ in range(n-1))+random.choice('ABCD')).encode(),0,0))
    inp=''.join('%s %s %d %d\n'%(k,s.hex(),a,b) for k,s,a,b in cases)
    res=subprocess.run(['./dump/dump'],input=inp.encode(),capture_output=True).stdout.decode().splitlines()
    ok=0;seen=set()
    for (k,s,a,b),line in zip(cases,res):
        r=json.loads(line)
        if 'err' in r: print('ERR',k,s,r['err']); continue
        row=r['rows'][0]
        try:
            if k=='c128':
                out,cs=read128(row); assert out==s.decode(),(out,s.decode())
                seen|={P128[row[11*i:11*i+11]] for i in range((len(row)-13)//11)}
            elif k=='25': assert read25(row,a==1)==s.decode()
            elif k=='codabar': assert readcoda(row)==s.decode()
            ok+=1
        except (AssertionError,KeyError) as e: print('FAIL',k,s,a,repr(e)[:100])
    print('ok',ok,'of',len(cases),'c128 patterns seen',len(seen))
