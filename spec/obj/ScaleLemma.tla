------------------------------ MODULE ScaleLemma ------------------------------
(* Unbounded arithmetic behind ScaleAlgo (checked with Apalache, --length=0 --inv=Inv): for ALL naturals *)
(* ow >= 1, w >= 1 the truncated quotient f = w div ow is 0 exactly when w < ow, is the largest factor    *)
(* that fits, and the floored half offset centres the grid to within one pixel.                           *)
EXTENDS Integers
VARIABLES
  \* @type: Int;
  ow,
  \* @type: Int;
  w,
  \* @type: Int;
  f,
  \* @type: Int;
  off
Init == /\ ow \in Nat /\ ow >= 1 /\ w \in Nat /\ w >= 1
        /\ f = w \div ow
        /\ off = (w - ow * f) \div 2
Next == UNCHANGED <<ow, w, f, off>>
Inv == /\ (f = 0) <=> (w < ow)
       /\ f >= 1 => /\ f * ow <= w /\ (f + 1) * ow > w
                    /\ off >= 0
                    /\ LET right == w - f * ow - off IN right - off \in {0, 1}
=============================================================================
