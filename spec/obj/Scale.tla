-------------------------------- MODULE Scale --------------------------------
(***************************************************************************)
(* barcode.Scale / ScaleWithFill, stated from the property (C09), not from *)
(* the code.  A source is a record [dim, w, h, px] with px[y+1][x+1] a     *)
(* colour code; a request is (tw, th, fill).                               *)
(***************************************************************************)
EXTENDS Integers, Sequences, FiniteSets

Max(S) == CHOOSE m \in S : \A x \in S : x <= m

\* the largest integer factor that fits (0 if none)
\* (closed form of  Max({0} \cup {k \in 1..tw : k * ow <= tw /\ (dim = 1 \/ k * oh <= th)});  MC_ScaleAlgo checks the two against each other;
\*  the closed form is what lets the trace specification judge requests of 10^9 pixels)
FactorSet(dim, ow, oh, tw, th) == Max({0} \cup {k \in 1..tw : k * ow <= tw /\ (dim = 1 \/ k * oh <= th)})
Factor(dim, ow, oh, tw, th) ==
  IF dim = 1 THEN tw \div ow ELSE (IF tw \div ow <= th \div oh THEN tw \div ow ELSE th \div oh)

MustFail(dim, ow, oh, tw, th) == Factor(dim, ow, oh, tw, th) = 0

\* offsets that centre a grid of g pixels in t pixels to within one pixel
CentredOffsets(t, g) == {o \in 0..(t - g) : LET rest == t - g - o IN o - rest \in {-1, 0, 1}}

\* the picture the property prescribes for offsets (ox, oy)
Picture(src, tw, th, fill, f, ox, oy) ==
  [y \in 1..th |-> [x \in 1..tw |->
     LET gx == (x - 1) - ox
         gy == (y - 1) - oy
     IN IF src.dim = 1
        THEN IF gx >= 0 /\ gx < f * src.w THEN src.px[1][(gx \div f) + 1] ELSE fill
        ELSE IF gx >= 0 /\ gx < f * src.w /\ gy >= 0 /\ gy < f * src.h
             THEN src.px[(gy \div f) + 1][(gx \div f) + 1] ELSE fill]]

\* the set of pictures the property allows
Allowed(src, tw, th, fill) ==
  LET f == Factor(src.dim, src.w, src.h, tw, th)
  IN {Picture(src, tw, th, fill, f, ox, oy) :
        ox \in CentredOffsets(tw, f * src.w),
        oy \in (IF src.dim = 1 THEN {0} ELSE CentredOffsets(th, f * src.h))}

IsScaled(src, tw, th, fill, px) == ~MustFail(src.dim, src.w, src.h, tw, th) /\ px \in Allowed(src, tw, th, fill)
=============================================================================
