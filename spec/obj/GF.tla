--------------------------------- MODULE GF ---------------------------------
(***************************************************************************)
(* Galois fields GF(2^m), polynomials over them and Reed-Solomon check     *)
(* symbols, defined from first principles (property C17).                  *)
(*                                                                         *)
(* Field elements are the integers 0..size-1 read as polynomials over      *)
(* GF(2); multiplication is polynomial multiplication modulo the primitive *)
(* polynomial pp.  MulSlow is that definition (shift and xor).  Mul is the *)
(* same function computed through discrete logarithms of the element       *)
(* alpha = 2, used where speed matters; MC_GF checks Mul = MulSlow         *)
(* exhaustively and that alpha generates every non-zero element, for every *)
(* field the library constructs.                                           *)
(***************************************************************************)
EXTENDS Integers, Sequences, SequencesExt, Bitwise, FiniteSets

\* multiplication by x (= alpha = 2)
XTime(pp, size, a) == LET d == 2 * a IN IF d >= size THEN (d ^^ pp) % size ELSE d

RECURSIVE MulSlow(_, _, _, _)
MulSlow(pp, size, a, b) ==
  IF b = 0 THEN 0
  ELSE (IF b % 2 = 1 THEN a ELSE 0) ^^ MulSlow(pp, size, XTime(pp, size, a), b \div 2)

Iota(n) == [i \in 1..n |-> i]

\* <<alpha^0, alpha^1, ..., alpha^(size-2)>>
ALogSeq(pp, size) == FoldLeft(LAMBDA acc, i : Append(acc, XTime(pp, size, acc[Len(acc)])), <<1>>, Iota(size - 2))

\* inverse table: log[v] = i  iff  alpha^i = v   (v in 1..size-1)
LogFn(alog, size) == FoldLeft(LAMBDA f, i : [f EXCEPT ![alog[i]] = i - 1], [v \in 1..(size - 1) |-> -1], Iota(size - 1))

MkField(pp, size, base) ==
  LET al == ALogSeq(pp, size)
  IN [pp |-> pp, size |-> size, base |-> base, alog |-> al, log |-> LogFn(al, size)]

\* alpha generates the multiplicative group  <=>  pp is primitive  <=>  discrete logs are well defined
Primitive(F) == /\ \A v \in 1..(F.size - 1) : F.log[v] \in 0..(F.size - 2) /\ F.alog[F.log[v] + 1] = v
                /\ XTime(F.pp, F.size, F.alog[F.size - 1]) = 1

Alpha(F, i) == F.alog[(i % (F.size - 1)) + 1]

Mul(F, a, b) == IF a = 0 \/ b = 0 THEN 0 ELSE F.alog[((F.log[a] + F.log[b]) % (F.size - 1)) + 1]
Add(a, b) == a ^^ b

InField(F, a) == a \in 0..(F.size - 1)

\* what the exported arithmetic may return (relations, independent of how the library computes them)
IsProduct(F, a, b, r)  == r = Mul(F, a, b)
IsQuotient(F, a, b, r) == b # 0 /\ InField(F, r) /\ Mul(F, r, b) = a       \* unique because b is invertible
IsInverse(F, a, r)     == a # 0 /\ InField(F, r) /\ Mul(F, a, r) = 1

-----------------------------------------------------------------------------
\* Polynomials: coefficient sequences, highest degree first (as utils.GFPoly). <<>> and <<0,..,0>> are zero.

RECURSIVE Norm(_)
Norm(p) == IF Len(p) > 1 /\ p[1] = 0 THEN Norm(Tail(p)) ELSE IF p = <<>> THEN <<0>> ELSE p
IsZeroPoly(p) == Norm(p) = <<0>>
Deg(p) == Len(Norm(p)) - 1

\* coefficient of x^k
Coef(p, k) == IF k < Len(p) THEN p[Len(p) - k] ELSE 0

PAdd(a, b) == LET n == IF Len(a) > Len(b) THEN Len(a) ELSE Len(b)
              IN Norm([i \in 1..n |-> Coef(a, n - i) ^^ Coef(b, n - i)])

XorAll(s) == FoldLeft(LAMBDA x, y : x ^^ y, 0, s)

PMul(F, a, b) ==
  IF a = <<>> \/ b = <<>> THEN <<0>>
  ELSE LET n == Len(a) + Len(b) - 1      \* result has degrees 0..n-1
       IN Norm([i \in 1..n |->
                 LET k == n - i           \* degree of this coefficient
                 IN XorAll([j \in 1..(k + 1) |-> Mul(F, Coef(a, j - 1), Coef(b, k - (j - 1)))])])

PMono(F, a, deg, c) == Norm([i \in 1..(Len(a) + deg) |-> IF i <= Len(a) THEN Mul(F, a[i], c) ELSE 0])

\* Horner
PEval(F, p, x) == FoldLeft(LAMBDA acc, c : Mul(F, acc, x) ^^ c, 0, p)

IsDivision(F, p, d, q, r) ==
  /\ ~IsZeroPoly(d)
  /\ PAdd(PMul(F, q, d), r) = Norm(p)
  /\ (IsZeroPoly(r) \/ Deg(r) < Deg(d))

-----------------------------------------------------------------------------
\* Reed-Solomon: n check symbols make data \o check vanish at alpha^(base), ..., alpha^(base+n-1)
IsRSCheck(F, data, n, res) ==
  /\ Len(res) = n
  /\ \A i \in 1..n : InField(F, res[i])
  /\ \A i \in 0..(n - 1) : PEval(F, data \o res, Alpha(F, F.base + i)) = 0

\* generator polynomial of degree k: prod_{i<k} (x - alpha^(base+i))
Gen(F, k) == FoldLeft(LAMBDA g, i : PMul(F, g, <<1, Alpha(F, F.base + i - 1)>>), <<1>>, Iota(k))

\* the fields the library constructs
F16   == MkField(19, 16, 1)        \* 0x13   Aztec mode message
F64   == MkField(67, 64, 1)        \* 0x43   Aztec 6-bit words
F256A == MkField(301, 256, 1)      \* 0x12D  Aztec 8-bit words, DataMatrix
F256Q == MkField(285, 256, 0)      \* QR
F1024 == MkField(1033, 1024, 1)    \* 0x409  Aztec 10-bit words
F4096 == MkField(4201, 4096, 1)    \* 0x1069 Aztec 12-bit words
LibFields == <<F16, F64, F256A, F256Q, F1024, F4096>>

FieldOf(key) ==   \* key = <<pp, size, base>>
  IF \E i \in 1..Len(LibFields) : <<LibFields[i].pp, LibFields[i].size, LibFields[i].base>> = key
  THEN LibFields[CHOOSE i \in 1..Len(LibFields) : <<LibFields[i].pp, LibFields[i].size, LibFields[i].base>> = key]
  ELSE MkField(key[1], key[2], key[3])
=============================================================================
