------------------------------ MODULE ScaleAlgo ------------------------------
(***************************************************************************)
(* Transcription of scale1DCode / scale2DCode (scaledbarcode.go): the      *)
(* factor as a truncated quotient, the offset as a floored half, and the   *)
(* wrap function with its two early returns.  MC_ScaleAlgo checks that it  *)
(* satisfies Scale.tla on a window of sizes, ScaleLemma.tla (Apalache)     *)
(* proves the arithmetic part for all naturals.                            *)
(***************************************************************************)
EXTENDS Scale

Min2(a, b) == IF a < b THEN a ELSE b

AlgoFactor(dim, ow, oh, tw, th) == IF dim = 1 THEN tw \div ow ELSE Min2(tw \div ow, th \div oh)

AlgoAt(src, tw, th, fill, x, y) ==      \* x, y zero based
  LET f == AlgoFactor(src.dim, src.w, src.h, tw, th)
      offx == (tw - src.w * f) \div 2
      offy == (th - src.h * f) \div 2
  IN IF src.dim = 1
     THEN IF x < offx THEN fill
          ELSE LET sx == (x - offx) \div f IN IF sx >= src.w THEN fill ELSE src.px[1][sx + 1]
     ELSE IF x < offx \/ y < offy THEN fill
          ELSE LET sx == (x - offx) \div f
                   sy == (y - offy) \div f
               IN IF sx >= src.w \/ sy >= src.h THEN fill ELSE src.px[sy + 1][sx + 1]

AlgoPicture(src, tw, th, fill) == [y \in 1..th |-> [x \in 1..tw |-> AlgoAt(src, tw, th, fill, x - 1, y - 1)]]
AlgoFails(src, tw, th) == AlgoFactor(src.dim, src.w, src.h, tw, th) <= 0
=============================================================================
