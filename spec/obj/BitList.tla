------------------------------- MODULE BitList -------------------------------
(***************************************************************************)
(* Abstract specification of utils.BitList (property C18): a growable      *)
(* sequence of bits.  bits[i+1] is the bit with Go index i.  Every public  *)
(* method is one action; `last` records the call and what it returns so    *)
(* that behaviours of this module can be replayed against the real object  *)
(* and recorded calls can be validated against it.                         *)
(***************************************************************************)
EXTENDS Integers, Sequences, SequencesExt, FiniteSets

CONSTANTS MaxLen,      \* bound on Len(bits) for model checking
          NewSizes,    \* arguments tried for NewBitList
          BitsArgs,    \* set of <<value, count>> tried for AddBits
          ByteArgs,    \* set of byte values tried for AddByte
          BitRuns      \* set of 0/1 sequences tried for the variadic AddBit

VARIABLES bits, last
vars == <<bits, last>>

Bit == {0, 1}

Pow2(k) == IF k = 0 THEN 1 ELSE 2 ^ k

\* the low k bits of v, most significant first (v >= 0)
\* bit k-i of v (two's complement, arithmetic shift): values are 32-bit here, so every position from 31 upwards shows the sign
LowBits(v, k) == [i \in 1..k |-> IF k - i >= 31 THEN (IF v < 0 THEN 1 ELSE 0) ELSE (v \div Pow2(k - i)) % 2]

\* the sequence packed eight bits per byte, MSB first, zero padded at the end
BitAt(s, i) == IF i <= Len(s) THEN s[i] ELSE 0
Pack8(s) == [j \in 1..((Len(s) + 7) \div 8) |->
               BitAt(s, 8*j-7) * 128 + BitAt(s, 8*j-6) * 64 + BitAt(s, 8*j-5) * 32 + BitAt(s, 8*j-4) * 16
             + BitAt(s, 8*j-3) * 8 + BitAt(s, 8*j-2) * 4 + BitAt(s, 8*j-1) * 2 + BitAt(s, 8*j)]

Zeros(n) == [i \in 1..n |-> 0]

Call(op, a, ret) == [op |-> op, a |-> a, ret |-> ret]

-----------------------------------------------------------------------------
\* What each method does to the sequence and what it returns (used by the trace spec as well).
AfterNew(n)          == Zeros(n)
AfterAddBit(s, bs)   == s \o bs
AfterAddBits(s,v,k)  == s \o LowBits(v, k)
AfterAddByte(s, b)   == s \o LowBits(b, 8)
AfterSetBit(s, i, v) == [s EXCEPT ![i + 1] = v]
\* n consecutive AddByte(b) steps, recorded as one event by the harness for long fills (composition of n AddByte actions)
AfterAddByteN(s, b, n) == s \o [i \in 1..(8 * n) |-> LowBits(b, 8)[((i - 1) % 8) + 1]]

Init == bits = <<>> /\ last = Call("New", <<0>>, <<>>)

New(n) == /\ bits' = AfterNew(n)
          /\ last' = Call("New", <<n>>, <<>>)

AddBit(bs) == /\ Len(bits) + Len(bs) <= MaxLen
              /\ bits' = AfterAddBit(bits, bs)
              /\ last' = Call("AddBit", bs, <<>>)

AddBits(v, k) == /\ Len(bits) + k <= MaxLen
                 /\ bits' = AfterAddBits(bits, v, k)
                 /\ last' = Call("AddBits", <<v, k>>, <<>>)

AddByte(b) == /\ Len(bits) + 8 <= MaxLen
              /\ bits' = AfterAddByte(bits, b)
              /\ last' = Call("AddByte", <<b>>, <<>>)

SetBit(i, v) == /\ i < Len(bits)              \* the property only speaks about indices below the length
                /\ bits' = AfterSetBit(bits, i, v)
                /\ last' = Call("SetBit", <<i, v>>, <<>>)

GetBit(i) == /\ i < Len(bits)
             /\ UNCHANGED bits
             /\ last' = Call("GetBit", <<i>>, <<bits[i + 1]>>)

LenOp == /\ UNCHANGED bits
         /\ last' = Call("Len", <<>>, <<Len(bits)>>)

GetBytes == /\ UNCHANGED bits
            /\ last' = Call("GetBytes", <<>>, Pack8(bits))

IterateBytes == /\ UNCHANGED bits
                /\ last' = Call("IterateBytes", <<>>, Pack8(bits))

Next == \/ \E n \in NewSizes : New(n)
        \/ \E bs \in BitRuns : AddBit(bs)
        \/ \E a \in BitsArgs : AddBits(a[1], a[2])
        \/ \E b \in ByteArgs : AddByte(b)
        \/ \E i \in 0..(MaxLen - 1), v \in Bit : SetBit(i, v)
        \/ \E i \in 0..(MaxLen - 1) : GetBit(i)
        \/ LenOp \/ GetBytes \/ IterateBytes

Spec == Init /\ [][Next]_vars

-----------------------------------------------------------------------------
TypeOK == bits \in Seq(Bit) /\ Len(bits) <= MaxLen

AppendOps == {"AddBit", "AddBits", "AddByte"}
ReadOps   == {"GetBit", "Len", "GetBytes", "IterateBytes"}

\* C18 as action properties
AppendsArePrefixExtensions ==
  [][last'.op \in AppendOps => IsPrefix(bits, bits')]_vars
ReadsChangeNothing ==
  [][last'.op \in ReadOps => bits' = bits]_vars
SetChangesExactlyOneBit ==
  [][last'.op = "SetBit" =>
       /\ Len(bits') = Len(bits)
       /\ \A j \in 1..Len(bits) : j # last'.a[1] + 1 => bits'[j] = bits[j]
       /\ bits'[last'.a[1] + 1] = last'.a[2]]_vars
NewIsAllZero ==
  [][last'.op = "New" => bits' = Zeros(last'.a[1])]_vars
Packed(ret, s) ==
     /\ Len(ret) = (Len(s) + 7) \div 8
     /\ \A i \in 1..Len(s) : s[i] = (ret[(i + 7) \div 8] \div Pow2(7 - ((i - 1) % 8))) % 2
     /\ \A i \in (Len(s) + 1)..(8 * Len(ret)) : (ret[(i + 7) \div 8] \div Pow2(7 - ((i - 1) % 8))) % 2 = 0
\* stated independently of Pack8: bit i of the sequence is bit 7-(i mod 8) of byte i div 8, padding bits are zero
BytesViewIsPacked ==
  [][last'.op \in {"GetBytes", "IterateBytes"} => Packed(last'.ret, bits')]_vars
ReadsReturnTheBit ==
  [][/\ last'.op = "GetBit" => last'.ret = <<bits[last'.a[1] + 1]>>
     /\ last'.op = "Len" => last'.ret = <<Len(bits)>>]_vars
=============================================================================
