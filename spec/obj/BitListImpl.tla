----------------------------- MODULE BitListImpl -----------------------------
(***************************************************************************)
(* Transcription of the implementation of utils.BitList: a bit count and a *)
(* slice of W-bit words that grows by max(GMIN, min(len, GMAX)) words.     *)
(* The real constants are W = 32, GMIN = 128, GMAX = 1024; the refinement  *)
(* BitListImpl => BitList is model-checked for scaled constants of the     *)
(* same shape (W = 8, GMIN = 2, GMAX = 4).                                  *)
(***************************************************************************)
EXTENDS Integers, Sequences, SequencesExt, FiniteSets

CONSTANTS W, GMIN, GMAX, MaxLen, NewSizes, BitsArgs, ByteArgs, BitRuns

VARIABLES count, data, last
vars == <<count, data, last>>

Pow2(k) == IF k = 0 THEN 1 ELSE 2 ^ k
BPW == W \div 8                      \* bytes per word

WordBit(w, sh) == (w \div Pow2(sh)) % 2
SetWordBit(w, sh, v) == w - WordBit(w, sh) * Pow2(sh) + v * Pow2(sh)

\* bl.GetBit(i)
ImplGet(d, i) == WordBit(d[(i \div W) + 1], (W - 1) - (i % W))
\* bl.SetBit(i, v)
ImplSet(d, i, v) == [d EXCEPT ![(i \div W) + 1] = SetWordBit(@, (W - 1) - (i % W), v)]

\* bl.grow()
Grow(d) == LET n  == Len(d)
               by == IF n < GMIN THEN GMIN ELSE IF n >= GMAX THEN GMAX ELSE n
           IN d \o [i \in 1..by |-> 0]

\* the same rule on lengths only, and the capacities (in words) a list that started with n0 words goes through
GrowLen(n) == n + (IF n < GMIN THEN GMIN ELSE IF n >= GMAX THEN GMAX ELSE n)
RECURSIVE CapSchedule(_, _)
CapSchedule(n0, k) == IF k = 0 THEN <<>> ELSE <<GrowLen(n0)>> \o CapSchedule(GrowLen(n0), k - 1)

RECURSIVE GrowUntil(_, _)
GrowUntil(d, idx) == IF idx >= Len(d) THEN GrowUntil(Grow(d), idx) ELSE d

\* one iteration of AddBit's loop
Add1(st, b) == LET d == GrowUntil(st.data, st.count \div W)
               IN [data |-> ImplSet(d, st.count, b), count |-> st.count + 1]

AddSeq(st, bs) == FoldLeft(Add1, st, bs)

LowBits(v, k) == [i \in 1..k |-> (v \div Pow2(k - i)) % 2]

St == [data |-> data, count |-> count]

Call(op, a, ret) == [op |-> op, a |-> a, ret |-> ret]

ImplBytes == LET n == (count + 7) \div 8
             IN [j \in 1..n |-> LET i == j - 1
                                    shift == ((BPW - 1) - (i % BPW)) * 8
                                IN (data[(i \div BPW) + 1] \div Pow2(shift)) % 256]

\* IterateBytes: the producer goroutine's loop, run to completion
RECURSIVE Iter(_, _, _, _)
Iter(c, shift, i, acc) ==
  IF c > 0
  THEN LET b == (data[i + 1] \div Pow2(shift)) % 256
       IN IF shift - 8 < 0 THEN Iter(c - 8, W - 8, i + 1, Append(acc, b))
                           ELSE Iter(c - 8, shift - 8, i, Append(acc, b))
  ELSE acc

Init == count = 0 /\ data = <<>> /\ last = Call("New", <<0>>, <<>>)

New(n) == /\ count' = n
          /\ data' = [i \in 1..((n \div W) + (IF n % W # 0 THEN 1 ELSE 0)) |-> 0]
          /\ last' = Call("New", <<n>>, <<>>)

Apply(bs, c) == /\ count + Len(bs) <= MaxLen
                /\ LET st == AddSeq(St, bs) IN data' = st.data /\ count' = st.count
                /\ last' = c

AddBit(bs)    == Apply(bs, Call("AddBit", bs, <<>>))
AddBits(v, k) == Apply(LowBits(v, k), Call("AddBits", <<v, k>>, <<>>))
AddByte(b)    == Apply(LowBits(b, 8), Call("AddByte", <<b>>, <<>>))

SetBit(i, v) == /\ i < count
                /\ data' = ImplSet(data, i, v) /\ UNCHANGED count
                /\ last' = Call("SetBit", <<i, v>>, <<>>)

GetBit(i) == /\ i < count /\ UNCHANGED <<count, data>>
             /\ last' = Call("GetBit", <<i>>, <<ImplGet(data, i)>>)
LenOp == UNCHANGED <<count, data>> /\ last' = Call("Len", <<>>, <<count>>)
GetBytes == UNCHANGED <<count, data>> /\ last' = Call("GetBytes", <<>>, ImplBytes)
IterateBytes == UNCHANGED <<count, data>> /\ last' = Call("IterateBytes", <<>>, Iter(count, W - 8, 0, <<>>))

Next == \/ \E n \in NewSizes : New(n)
        \/ \E bs \in BitRuns : AddBit(bs)
        \/ \E a \in BitsArgs : AddBits(a[1], a[2])
        \/ \E b \in ByteArgs : AddByte(b)
        \/ \E i \in 0..(MaxLen - 1), v \in {0, 1} : SetBit(i, v)
        \/ \E i \in 0..(MaxLen - 1) : GetBit(i)
        \/ LenOp \/ GetBytes \/ IterateBytes

Spec == Init /\ [][Next]_vars

-----------------------------------------------------------------------------
\* refinement mapping
Abs == [i \in 1..count |-> ImplGet(data, i - 1)]

ABS == INSTANCE BitList WITH bits <- Abs
Refines == ABS!Spec

\* The same refinement, stated per step through the shared call record (cheap to check: one abstract
\* action is evaluated per implementation step instead of the whole abstract next-state relation).
AbsStep ==
  LET c == last' IN
  CASE c.op = "New"          -> ABS!New(c.a[1])
    [] c.op = "AddBit"       -> ABS!AddBit(c.a)
    [] c.op = "AddBits"      -> ABS!AddBits(c.a[1], c.a[2])
    [] c.op = "AddByte"      -> ABS!AddByte(c.a[1])
    [] c.op = "SetBit"       -> ABS!SetBit(c.a[1], c.a[2])
    [] c.op = "GetBit"       -> ABS!GetBit(c.a[1])
    [] c.op = "Len"          -> ABS!LenOp
    [] c.op = "GetBytes"     -> ABS!GetBytes
    [] c.op = "IterateBytes" -> ABS!IterateBytes
    [] OTHER -> FALSE
StepRefines == [][AbsStep]_vars
InitRefines == ABS!Init

\* implementation invariants the byte views depend on
Allocated == count <= Len(data) * W
SlackIsZero == \A i \in count..(Len(data) * W - 1) : ImplGet(data, i) = 0
WordsInRange == \A k \in 1..Len(data) : data[k] \in 0..(Pow2(W) - 1)
=============================================================================
