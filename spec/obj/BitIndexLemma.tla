----------------------------- MODULE BitIndexLemma -----------------------------
(* Unbounded arithmetic behind BitListImpl (checked with Apalache, --length=0 --inv=Inv): for ALL naturals i, j the        *)
(* storage position of bit i - word i div 32, bit 31 - i mod 32 of that word, most significant bit first - determines i    *)
(* (distinct bits never share a position), lies inside the words a list of i + 1 bits needs, and the byte a reader sees    *)
(* at byte index i div 8 takes its bit 7 - i mod 8 from it.                                                                 *)
EXTENDS Integers
VARIABLES
  \* @type: Int;
  i,
  \* @type: Int;
  j
Word(x) == x \div 32
Shift(x) == 31 - (x % 32)
Init == i \in Nat /\ j \in Nat
Next == UNCHANGED <<i, j>>
Inv == /\ Shift(i) \in 0..31
       /\ 32 * Word(i) + (31 - Shift(i)) = i                                   \* the position determines the index
       /\ ((Word(i) = Word(j) /\ Shift(i) = Shift(j)) => i = j)                 \* injective
       /\ Word(i) < (i + 1 + 31) \div 32                                        \* inside the words that Len = i + 1 needs
       /\ LET b == i \div 8 IN Word(8 * b) = Word(i) /\ Shift(i) = Shift(8 * b) - (i % 8)    \* byte view: byte b holds bits 8b..8b+7, MSB first, in one word
=============================================================================
