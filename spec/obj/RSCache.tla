------------------------------- MODULE RSCache -------------------------------
(***************************************************************************)
(* utils.ReedSolomonEncoder.getPolynomial: a lazily grown, mutex-protected *)
(* cache of generator polynomials shared by all callers of one encoder     *)
(* (qr.ec and datamatrix.ec are process-wide).  One action per step of the *)
(* code: call, Lock, the length test, each loop iteration (one append),    *)
(* the return (deferred Unlock).  Serves C17 (results independent of the   *)
(* request history), C15 (history-free) and C16 (concurrent callers).      *)
(* Locked = FALSE removes the mutex: the negative model that must violate  *)
(* CacheCorrect, showing the invariants are not vacuous.                   *)
(***************************************************************************)
EXTENDS GF, TLC

CONSTANTS Clients, MaxDeg, MaxCalls, FieldKey, Locked

VARIABLES polys,   \* the cache: polys[k+1] is the generator polynomial of degree k
          mu,      \* holder of the mutex, or "none"
          pc, want, d, lastp, got, ncalls

vars == <<polys, mu, pc, want, d, lastp, got, ncalls>>

F == FieldOf(FieldKey)

Init == /\ polys = << <<1>> >>
        /\ mu = "none"
        /\ pc = [c \in Clients |-> "idle"]
        /\ want = [c \in Clients |-> 0]
        /\ d = [c \in Clients |-> 0]
        /\ lastp = [c \in Clients |-> <<1>>]
        /\ got = [c \in Clients |-> [deg |-> 0, poly |-> <<1>>]]
        /\ ncalls = [c \in Clients |-> 0]

Call(c, deg) == /\ pc[c] = "idle" /\ ncalls[c] < MaxCalls
                /\ pc' = [pc EXCEPT ![c] = "wait"]
                /\ want' = [want EXCEPT ![c] = deg]
                /\ ncalls' = [ncalls EXCEPT ![c] = @ + 1]
                /\ UNCHANGED <<polys, mu, d, lastp, got>>

Lock(c) == /\ pc[c] = "wait"
           /\ Locked => mu = "none"
           /\ mu' = IF Locked THEN c ELSE mu
           /\ pc' = [pc EXCEPT ![c] = "check"]
           /\ UNCHANGED <<polys, want, d, lastp, got, ncalls>>

Check(c) == /\ pc[c] = "check"
            /\ IF want[c] >= Len(polys)
               THEN /\ lastp' = [lastp EXCEPT ![c] = polys[Len(polys)]]
                    /\ d' = [d EXCEPT ![c] = Len(polys)]
                    /\ pc' = [pc EXCEPT ![c] = "loop"]
               ELSE /\ pc' = [pc EXCEPT ![c] = "ret"]
                    /\ UNCHANGED <<lastp, d>>
            /\ UNCHANGED <<polys, mu, want, got, ncalls>>

Loop(c) == /\ pc[c] = "loop"
           /\ IF d[c] <= want[c]
              THEN LET next == PMul(F, lastp[c], <<1, Alpha(F, d[c] - 1 + F.base)>>)
                   IN /\ polys' = Append(polys, next)
                      /\ lastp' = [lastp EXCEPT ![c] = next]
                      /\ d' = [d EXCEPT ![c] = @ + 1]
                      /\ UNCHANGED pc
              ELSE /\ pc' = [pc EXCEPT ![c] = "ret"]
                   /\ UNCHANGED <<polys, lastp, d>>
           /\ UNCHANGED <<mu, want, got, ncalls>>

Return(c) == /\ pc[c] = "ret"
             /\ got' = [got EXCEPT ![c] = [deg |-> want[c], poly |-> polys[want[c] + 1]]]
             /\ mu' = IF Locked THEN "none" ELSE mu
             /\ pc' = [pc EXCEPT ![c] = "idle"]
             /\ UNCHANGED <<polys, want, d, lastp, ncalls>>

Next == \E c \in Clients : \/ \E deg \in 0..MaxDeg : Call(c, deg)
                           \/ Lock(c) \/ Check(c) \/ Loop(c) \/ Return(c)

Fairness == \A c \in Clients : WF_vars(Lock(c) \/ Check(c) \/ Loop(c) \/ Return(c))
Spec == Init /\ [][Next]_vars /\ Fairness

-----------------------------------------------------------------------------
InCS(c) == pc[c] \in {"check", "loop", "ret"}
MutualExclusion == \A a, b \in Clients : InCS(a) /\ InCS(b) => a = b
CacheCorrect    == \A k \in 1..Len(polys) : polys[k] = Gen(F, k - 1)
ResultCorrect   == \A c \in Clients : got[c].poly = Gen(F, got[c].deg)
CacheAppendOnly == [][IsPrefix(polys, polys')]_vars
\* every call returns (no client waits forever for the mutex once everybody stops calling)
EveryCallReturns == \A c \in Clients : (pc[c] # "idle") ~> (pc[c] = "idle")
=============================================================================
