SPECIFICATION Spec
CONSTANTS
  Kind = "bytes"
  Produced = 0
  Consumed = 0
  Points <- mcNone
  Content <- mcNone
INVARIANTS NoZeroFill InOrder
PROPERTIES CallReturns NoLeak
CHECK_DEADLOCK FALSE
