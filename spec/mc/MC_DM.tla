--------------------------------- MODULE MC_DM ---------------------------------
(* DataMatrix: for all 24 sizes the Annex F placement assigns every module of the mapping matrix exactly once (or leaves *)
(* exactly the 2x2 fixed pattern), uses data+check codewords many shapes, and the corner cases each size triggers are    *)
(* recorded; size table laws; the encoder model of ASCII encodation + 253-state padding (transcribed from               *)
(* encodeText/addPadding) is inverted by the reader automaton for all class strings up to MaxLen and every pad run.      *)
EXTENDS DMEnc, TLC
CONSTANT MaxLen
VARIABLES phase, i, s
vars == <<phase, i, s>>
Classes == {53, 65, 200, 181}             \* a digit, an ASCII non-digit, a byte above 127, a byte above 127 whose low seven bits are a digit
Init == \/ phase = "place" /\ i \in 1..24 /\ s = <<>>
        \/ phase = "ascii" /\ i = 0 /\ s = <<>>
Next == phase = "ascii" /\ Len(s) < MaxLen /\ \E c \in Classes : s' = Append(s, c) /\ UNCHANGED <<phase, i>>
Spec == Init /\ [][Next]_vars

PlacementOK == phase = "place" =>
  LET pl == Placements[i]
      n == MapSide(i)
      free == {rc \in (1..n) \X (1..n) : pl.arr[rc[1]][rc[2]] = 0}
      used == {pl.arr[rc[1]][rc[2]] : rc \in (1..n) \X (1..n)} \ {0}
  IN /\ ~pl.dup
     /\ pl.ch - 1 = Sizes[i][3] + Sizes[i][4]
     /\ free \in {{}, {<<n, n>>, <<n, n - 1>>, <<n - 1, n>>, <<n - 1, n - 1>>}}
     /\ (8 * (pl.ch - 1) + Cardinality(free) = n * n)
     /\ used = {c * 10 + b : c \in 1..(pl.ch - 1), b \in 1..8}         \* every bit of every codeword is placed (exactly once: counts match)
SizeLaws == phase = "place" =>
  /\ Sizes[i][1] % Sizes[i][2] = 0 /\ Sizes[i][4] % Sizes[i][5] = 0
  /\ (i > 1 => Sizes[i][3] > Sizes[i - 1][3] /\ Sizes[i][1] > Sizes[i - 1][1])
  /\ ((Sizes[i][3] + Sizes[i][5] - 1) \div Sizes[i][5]) + (Sizes[i][4] \div Sizes[i][5]) <= 255

AsciiRoundTrip == phase = "ascii" =>
  LET cw == EncText(s, 1) IN
  /\ Len(cw) = EncLen(s, 1) /\ EncLenIt(s) = EncLen(s, 1)
  /\ \A to \in {Len(cw), Len(cw) + 1, Len(cw) + 2, Len(cw) + 30, 300} :
        LET a == Ascii(AddPadding(cw, to)) IN a.ok /\ ~a.shift /\ a.out = s /\ (a.pad <=> to > Len(cw))
=============================================================================
