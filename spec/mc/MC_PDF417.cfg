SPECIFICATION Spec
INVARIANTS TableLaws StartStop Conversions Dimensions
CHECK_DEADLOCK FALSE
