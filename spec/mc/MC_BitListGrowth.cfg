SPECIFICATION Spec
INVARIANT ScheduleLaws
CHECK_DEADLOCK FALSE
