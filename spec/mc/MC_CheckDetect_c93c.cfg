SPECIFICATION Spec
CONSTANTS Scheme = "c93c"
 MaxLen = 45
INVARIANTS SingleSubstitutionDetected NoChangeNoAlarm
CHECK_DEADLOCK FALSE
