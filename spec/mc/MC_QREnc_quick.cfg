SPECIFICATION Spec
CONSTANT MaxLen = 3
INVARIANT RoundTrip
CHECK_DEADLOCK FALSE
