SPECIFICATION Spec
CONSTANTS
  Clients <- mcClients2
  MaxDeg = 3
  MaxCalls = 2
  FieldKey <- mcField
  Locked = TRUE
INVARIANTS MutualExclusion CacheCorrect ResultCorrect
PROPERTIES CacheAppendOnly EveryCallReturns
CHECK_DEADLOCK FALSE
