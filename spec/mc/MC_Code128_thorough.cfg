SPECIFICATION Spec
CONSTANT MaxLen = 7
INVARIANTS RefusesExactlyUnrepresentable RoundTrip StartsWithStart
CHECK_DEADLOCK FALSE
