SPECIFICATION Spec
INVARIANTS GeometryOK HLRoundTrip BinaryRuns LayerRule
CHECK_DEADLOCK FALSE
