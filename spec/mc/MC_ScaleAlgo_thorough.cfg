SPECIFICATION Spec
CONSTANTS
  MaxSrc = 6
  MaxT = 20
INVARIANTS FactorClosedForm FailsExactlyWhenTooSmall PictureAllowed ChainAllowed
CHECK_DEADLOCK FALSE
