SPECIFICATION Spec
CONSTANTS
  MaxSrc = 6
  MaxT = 20
INVARIANTS FailsExactlyWhenTooSmall PictureAllowed ChainAllowed
CHECK_DEADLOCK FALSE
