SPECIFICATION Spec
CONSTANTS
  Args <- mcArgs
  Bufs <- mcBufs
  Vals <- mcVals
  MaxHandles = 3
  Aliasing = FALSE
  Stateful = FALSE
INVARIANT Deterministic
PROPERTIES Immutable InputUntouched
CHECK_DEADLOCK FALSE
