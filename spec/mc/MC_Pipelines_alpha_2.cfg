SPECIFICATION Spec
CONSTANTS
  Kind = "alpha"
  Produced = 0
  Consumed = 0
  Points <- mcNone
  Content <- mcAlpha2
INVARIANTS AlphaPrefix
PROPERTIES CallReturns NoLeak
CHECK_DEADLOCK FALSE
