SPECIFICATION Spec
CONSTANTS Scheme = "c128"
 MaxLen = 104
INVARIANTS SingleSubstitutionDetected
CHECK_DEADLOCK FALSE
