----------------------------- MODULE SimBitList -----------------------------
(* Behaviour generator for replay (spec -> code): random walks of BitList.tla whose call *)
(* sequence is carried in `hist` and printed as JSON when the walk reaches Depth.        *)
EXTENDS BitList, Json, TLC
CONSTANT Depth
VARIABLE hist
simNewSizes == {0, 1, 5, 31, 32, 33, 64, 100}
simBitsArgs == {<<5, 3>>, <<0, 1>>, <<1, 1>>, <<6, 4>>, <<255, 9>>, <<43690, 16>>, <<1, 31>>, <<0, 0>>, <<123456789, 27>>}
simByteArgs == {0, 1, 128, 165, 255}
simBitRuns  == {<<1>>, <<0>>, <<1, 0, 1>>, <<>>, <<1, 1, 1, 1, 1, 1, 1, 1, 1>>}
SimInit == Init /\ hist = <<>>
SimNext == \/ Len(hist) < Depth /\ Next /\ hist' = Append(hist, last')
           \/ Len(hist) = Depth /\ PrintT(<<"BEHAVIOUR", ToJson(hist)>>) /\ hist' = <<"done">> /\ UNCHANGED vars
SimSpec == SimInit /\ [][SimNext]_<<vars, hist>>
=============================================================================
