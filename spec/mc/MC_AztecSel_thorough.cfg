SPECIFICATION Spec
CONSTANT MaxBits = 14
INVARIANTS StuffOK SelOK
CHECK_DEADLOCK FALSE
