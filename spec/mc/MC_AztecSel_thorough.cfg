SPECIFICATION Spec
CONSTANTS
  ExactFitOK = TRUE
  MaxBits = 17
INVARIANTS StuffOK SelOK
CHECK_DEADLOCK FALSE
