------------------------------- MODULE MC_AztecHL -------------------------------
(* Aztec high-level encoder model || decoding automaton: every string up to MaxLen over representative bytes (upper, lower, digit, *)
(* space, punctuation, mixed-only, binary-only, the characters that take part in the two-byte punctuation codes, CR, LF, the       *)
(* double quote that the library's table lacks).                                                                                     *)
EXTENDS AztecHLEnc, TLC
CONSTANTS MaxLen, Prefix
VARIABLE s
NoPrefix == <<>>
PunctRun == <<33, 33, 33, 33, 33>>
Alphabet == {65, 97, 49, 32, 33, 64, 128, 44, 46, 58, 13, 10, 34}
Init == s = Prefix
Next == Len(s) < MaxLen /\ \E c \in Alphabet : s' = Append(s, c)
Spec == Init /\ [][Next]_s
RoundTrip == s # <<>> => LET bits == ToBits(s)
                             d == Decode(bits, 12)
                         IN d.ok /\ d.out = s /\ d.used = Len(bits) /\ Len(bits) = Best(s).bits
=============================================================================
