SPECIFICATION Spec
CONSTANTS
  Kind = "bytes"
  Produced = 1
  Consumed = 1
  Points <- mcNone
  Content <- mcNone
INVARIANTS NoZeroFill InOrder
PROPERTIES CallReturns NoLeak
CHECK_DEADLOCK FALSE
