-------------------------------- MODULE MC_GF --------------------------------
(* Field laws for every field the library constructs, as invariants of a trivial state machine *)
(* that walks through all (field, a); each invariant quantifies over the other operands:       *)
(* all of them for sizes <= FullUpTo, a covering set (0, 1, 2, 3, size-1, size-2, powers of    *)
(* alpha, a few spread values) above.                                                          *)
EXTENDS GF, TLC
CONSTANTS FullUpTo, AssocUpTo
VARIABLES f, a
vars == <<f, a>>
Fld == LibFields[f]
Init == f \in 1..Len(LibFields) /\ a \in 0..15          \* 16 interleaved walks per field (parallelism)
Next == a + 16 <= Fld.size - 1 /\ a' = a + 16 /\ f' = f
Spec == Init /\ [][Next]_vars

Cover(F) == {0, 1, 2, 3, F.size - 1, F.size - 2, F.size \div 2, F.size \div 2 - 1}
            \cup {Alpha(F, i) : i \in {5, 7, 11, 100, 255, 256, 1000}} \cup {(k * 37 + 5) % F.size : k \in 0..40}
Others(F) == IF F.size <= FullUpTo THEN 0..(F.size - 1) ELSE Cover(F)

FieldIsPrimitive == a = 0 => Primitive(Fld)
MulIsPolynomialMul == \A b \in Others(Fld) : Mul(Fld, a, b) = MulSlow(Fld.pp, Fld.size, a, b)
Commutative == \A b \in Others(Fld) : Mul(Fld, a, b) = Mul(Fld, b, a)
Associative == \A b \in (IF Fld.size <= AssocUpTo THEN 0..(Fld.size - 1) ELSE Cover(Fld)),
                  c \in (IF Fld.size <= AssocUpTo THEN 0..(Fld.size - 1) ELSE Cover(Fld)) :
                  Mul(Fld, Mul(Fld, a, b), c) = Mul(Fld, a, Mul(Fld, b, c))
Distributive == \A b \in Others(Fld), c \in Cover(Fld) : Mul(Fld, a, b ^^ c) = Mul(Fld, a, b) ^^ Mul(Fld, a, c)
Identity == Mul(Fld, a, 1) = a /\ Mul(Fld, a, 0) = 0
InverseExistsUnique == a # 0 => \E r \in 1..(Fld.size - 1) :
                          /\ IsInverse(Fld, a, r)
                          /\ (Fld.size <= FullUpTo => \A s \in 1..(Fld.size - 1) : IsInverse(Fld, a, s) => s = r)
DivisionUndoesMul == \A b \in Others(Fld) \ {0} :
                        /\ IsQuotient(Fld, Mul(Fld, a, b), b, a)
                        /\ \E r \in {Mul(Fld, a, Alpha(Fld, (Fld.size - 1) - Fld.log[b]))} : IsQuotient(Fld, a, b, r)
\* RS: the generator polynomial of degree a (bounded) has exactly the required roots, and the relation IsRSCheck
\* holds for the remainder of x^n * data by it
GenHasRoots == a \in 1..12 /\ a < Fld.size - 1 - Fld.base =>
                 \A i \in 0..(a - 1) : PEval(Fld, Gen(Fld, a), Alpha(Fld, Fld.base + i)) = 0
=============================================================================
