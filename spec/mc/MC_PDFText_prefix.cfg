SPECIFICATION Spec
CONSTANTS
  MaxLen = 12
  PadFix = TRUE
  Alphabet <- SmallAlphabet
  Prefix <- PunctPrefix
INVARIANT RoundTrip
CHECK_DEADLOCK FALSE
