SPECIFICATION Spec
CONSTANTS
  MaxLen = 7
  PadFix = TRUE
  Alphabet <- FullAlphabet
  Prefix <- NoPrefix
INVARIANT RoundTrip
CHECK_DEADLOCK FALSE
