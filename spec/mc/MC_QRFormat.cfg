SPECIFICATION Spec
INVARIANTS FormatDistance VersionDistance BlockLaws CapacityBoundaries
CHECK_DEADLOCK FALSE
