SPECIFICATION Spec
CONSTANTS
  Pairs = FALSE
  MaxRun = 45
INVARIANTS SpellingResolves ReadersInvertDrawing WeightsWrap
CHECK_DEADLOCK FALSE
