------------------------------- MODULE MC_PDFText -------------------------------
(* Encoder model || reader for every string up to MaxLen over representative bytes of the classes the encoder distinguishes:    *)
(* upper, lower, digit (mixed), punctuation-only, mixed-and-punctuation, space, and a non-text byte.                           *)
EXTENDS PDFTextEnc, TLC
CONSTANTS MaxLen, Alphabet, Prefix
VARIABLE s
FullAlphabet == {65, 97, 49, 59, 44, 32, 128}
SmallAlphabet == {97, 128, 59}
NoPrefix == <<>>
PunctPrefix == <<49, 49, 59, 59, 59>>          \* a text run that ends in the punctuation sub-mode with an odd number of values
Init == s = Prefix
Next == Len(s) < MaxLen /\ \E c \in Alphabet : s' = Append(s, c)
Spec == Init /\ [][Next]_s
RoundTrip == LET d == Decode(HighLevel(s)) IN d.ok /\ ~d.raw /\ d.out = s
=============================================================================
