SPECIFICATION Spec
CONSTANTS
  FullUpTo = 1024
  AssocUpTo = 64
INVARIANTS FieldIsPrimitive MulIsPolynomialMul Commutative Associative Distributive Identity InverseExistsUnique DivisionUndoesMul GenHasRoots
CHECK_DEADLOCK FALSE
