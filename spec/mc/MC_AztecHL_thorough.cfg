SPECIFICATION Spec
CONSTANTS
  MaxLen = 5
  BSFix = TRUE
  Prefix <- NoPrefix
INVARIANT RoundTrip
CHECK_DEADLOCK FALSE
