-------------------------------- MODULE MC_Aztec --------------------------------
(* Aztec: (geo) for all 36 sizes the layer spiral visits TotalBits distinct modules, none of them in the bullseye / mode     *)
(* message square or on a reference-grid line, and together with those they are the whole symbol; (hl) a straightforward     *)
(* encoder model over the reader's own tables (latch along a shortest latch path, else shift, else one-byte binary shift)    *)
(* is inverted by the decoding automaton for every string up to length 3 over representative bytes, and binary-shift runs   *)
(* around the 31/62-byte length-field boundaries; (lay) the layer-selection rule (transcription) always leaves at least the *)
(* requested percentage of check bits.                                                                                       *)
EXTENDS Aztec, TLC
VARIABLES phase, a, s
vars == <<phase, a, s>>
Reps == {65, 97, 49, 32, 33, 64, 128, 44, 13}
Init == \/ phase = "geo" /\ a \in (-4..-1) \cup (1..32) /\ s = <<>>
        \/ phase = "hl" /\ a = 0 /\ s = <<>>
        \/ phase = "bs" /\ a \in {1, 2, 30, 31, 32, 33, 61, 62, 63, 64, 100} /\ s = <<>>
        \/ phase = "lay" /\ a \in {0, 23, 33, 100} /\ s = <<0>>
Next == \/ phase = "hl" /\ Len(s) < 3 /\ \E c \in Reps : s' = Append(s, c) /\ UNCHANGED <<phase, a>>
        \/ phase = "lay" /\ s[1] < 24000 /\ s' = <<s[1] + 1 + (s[1] \div 9)>> /\ UNCHANGED <<phase, a>>
Spec == Init /\ [][Next]_vars

GeometryOK == phase = "geo" =>
  LET compact == a < 0
      L == Abs(a)
      n == SymbolSize(L, compact)
      c == n \div 2
      sq == IF compact THEN 5 ELSE 7
      sp == Spiral(L, compact)
      cells == {sp[i] : i \in 1..Len(sp)}
      lines == GridLines(n, compact)
      fn == {xy \in (0..(n - 1)) \X (0..(n - 1)) : (Abs(xy[1] - c) <= sq /\ Abs(xy[2] - c) <= sq) \/ xy[1] \in lines \/ xy[2] \in lines}
  IN /\ Len(sp) = TotalBits(L, compact)
     /\ Cardinality(cells) = Len(sp)
     /\ cells \cap fn = {}
     /\ Cardinality(cells) + Cardinality(fn) = n * n
     /\ Len(AMap(n, compact)) = BaseSize(L, compact)
     /\ TotalBits(L, compact) \div WordSize(L) <= (IF WordSize(L) = 6 THEN 63 ELSE IF WordSize(L) = 8 THEN 255 ELSE IF WordSize(L) = 10 THEN 1023 ELSE 4095)

\* encoder model over the reader's tables
CodeIn(mode, b) == IF \E v \in 1..Len(TableOf(mode)) : TableOf(mode)[v] = b THEN (CHOOSE v \in 1..Len(TableOf(mode)) : TableOf(mode)[v] = b) - 1 ELSE -1
W(mode) == IF mode = 5 THEN 4 ELSE 5
BitsOf(v, w) == [i \in 1..w |-> (v \div 2 ^ (w - i)) % 2]
\* latch sequences between modes (from ISO: U->L,M,D; L->M,D; L->U via D or M; M->L,U,P; P->U; D->U)
LatchPath(from, to) ==
  IF from = to THEN <<>>
  ELSE CASE from = 1 -> (IF to = 4 THEN <<3, 4>> ELSE <<to>>)
         [] from = 2 -> (IF to = 1 THEN <<5, 1>> ELSE IF to = 4 THEN <<3, 4>> ELSE <<to>>)
         [] from = 3 -> (IF to = 5 THEN <<1, 5>> ELSE <<to>>)
         [] from = 4 -> (IF to = 1 THEN <<1>> ELSE <<1, to>>)
         [] from = 5 -> (IF to = 1 THEN <<1>> ELSE IF to = 4 THEN <<1, 3, 4>> ELSE <<1, to>>)
RECURSIVE LatchBits(_, _)
LatchBits(from, path) == IF path = <<>> THEN <<>> ELSE BitsOf(CodeIn(from, -10 - path[1]), W(from)) \o LatchBits(path[1], Tail(path))
HomeMode(b) == IF \E m \in 1..5 : CodeIn(m, b) >= 0 THEN CHOOSE m \in 1..5 : CodeIn(m, b) >= 0 /\ \A k \in 1..(m - 1) : CodeIn(k, b) < 0 ELSE 0
RECURSIVE EncModel(_, _, _)
EncModel(bytes, i, mode) ==
  IF i > Len(bytes) THEN <<>>
  ELSE LET b == bytes[i] IN
       IF CodeIn(mode, b) >= 0 THEN BitsOf(CodeIn(mode, b), W(mode)) \o EncModel(bytes, i + 1, mode)
       ELSE IF HomeMode(b) = 4 /\ mode # 4 THEN BitsOf(0, W(mode)) \o BitsOf(CodeIn(4, b), 5) \o EncModel(bytes, i + 1, mode)        \* P/S
       ELSE IF HomeMode(b) > 0 THEN LatchBits(mode, LatchPath(mode, HomeMode(b))) \o EncModel(bytes, i, HomeMode(b))
       ELSE LET m2 == IF mode \in {4, 5} THEN 1 ELSE mode                                                                             \* B/S needs U, L or M
            IN LatchBits(mode, LatchPath(mode, m2)) \o BitsOf(31, 5) \o BitsOf(1, 5) \o BitsOf(b, 8) \o EncModel(bytes, i + 1, m2)
HLRoundTrip == phase = "hl" => LET d == Decode(EncModel(s, 1, 1), 12) IN d.ok /\ d.out = s
BinaryRuns == phase = "bs" =>
  LET run == [i \in 1..a |-> 128 + (i % 100)]
      hdr == IF a <= 31 THEN BitsOf(31, 5) \o BitsOf(a, 5) ELSE BitsOf(31, 5) \o BitsOf(0, 5) \o BitsOf(a - 31, 11)
      bits == BitsOf(CodeIn(1, 65), 5) \o hdr \o FoldLeft(LAMBDA acc, b : acc \o BitsOf(b, 8), <<>>, run) \o BitsOf(CodeIn(1, 66), 5)
      d == Decode(bits, 12)
  IN d.ok /\ d.out = <<65>> \o run \o <<66>> /\ d.used = Len(bits)
\* layer selection (transcription of the automatic branch), with the stuffed length anywhere between bits rounded up and the worst case
Choose(bits, pct, extraWords) ==
  LET ecc == EccBits(bits, pct)
      fits(i) == LET compact == i <= 3
                     L == IF compact THEN i + 1 ELSE i
                     w == WordSize(L)
                     tot == TotalBits(L, compact)
                     stuffed == (((bits + w - 1) \div w) + extraWords) * w
                 IN bits + ecc <= tot /\ ~(compact /\ stuffed > 64 * w) /\ stuffed + ecc <= tot - (tot % w)
  IN IF \E i \in 0..32 : fits(i) THEN CHOOSE i \in 0..32 : fits(i) /\ \A k \in 0..(i - 1) : ~fits(k) ELSE -1
LayerRule == phase = "lay" => \A x \in 0..2 :
  LET i == Choose(s[1], a, x) IN
  i >= 0 => LET compact == i <= 3
                L == IF compact THEN i + 1 ELSE i
                w == WordSize(L)
                tot == TotalBits(L, compact)
                nd == ((s[1] + w - 1) \div w) + x
            IN ((tot \div w) - nd) * w >= (s[1] * a) \div 100 /\ nd <= tot \div w
=============================================================================
