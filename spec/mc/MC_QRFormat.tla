------------------------------ MODULE MC_QRFormat ------------------------------
(* The 32 format words and 34 version words, computed by BCH division: pairwise distinct, minimum distance 7 (format) *)
(* and 8 (version), so that the decoded (level, mask) / version is unique; plus block-table laws for all 160 rows and  *)
(* the capacity boundaries of all 160 x 3 (version, level, mode) cells: at the boundary length the encoder model's     *)
(* stream (count field, payload, terminator, byte alignment, alternating pads) parses back; one more character does    *)
(* not fit that version.                                                                                                *)
EXTENDS QR, TLC
VARIABLES phase, a, b
vars == <<phase, a, b>>
Weight(w) == Sum([i \in 1..18 |-> BitOf(w, i - 1)])
Init == \/ phase = "fmt" /\ a \in 0..31 /\ b = 0
        \/ phase = "ver" /\ a \in 7..40 /\ b = 0
        \/ phase = "cap" /\ a \in 1..40 /\ b \in 0..3
Next == FALSE /\ UNCHANGED vars
Spec == Init /\ [][Next]_vars
Fw(i) == FmtWord(i \div 8, i % 8)
FormatDistance == phase = "fmt" => \A j \in 0..31 : j # a => Weight(Fw(a) ^^ Fw(j)) >= 7
VersionDistance == phase = "ver" => \A j \in 7..40 : j # a => Weight(VerWord(a) ^^ VerWord(j)) >= 8
\* encoder model of the bit stream at capacity: mode, count, all-zero payload, then addPaddingAndTerminator
MaxLen(v, level, md) == CHOOSE m \in 0..7100 : Fits(v, level, md, m) /\ ~Fits(v, level, md, m + 1)
EncStream(v, level, md, m) ==
  LET cap == 8 * DataCW(v, level)
      head == [i \in 1..4 |-> BitOf(md, 4 - i)] \o [i \in 1..CountBits(v, md) |-> BitOf(m, CountBits(v, md) - i)] \o Rep(0, PayloadBits(md, m))
      t == IF cap - Len(head) < 4 THEN cap - Len(head) ELSE 4
      h2 == head \o Rep(0, t)
      h3 == h2 \o Rep(0, (8 - (Len(h2) % 8)) % 8)
      npad == (cap - Len(h3)) \div 8
  IN h3 \o FoldLeft(LAMBDA acc, i : acc \o [j \in 1..8 |-> BitOf(IF i % 2 = 1 THEN 236 ELSE 17, 8 - j)], <<>>, Iota(npad))
BlockLaws == phase = "cap" =>
   LET nb == QRNumBlocks[b + 1][a]
       ec == QRECPerBlock[b + 1][a]
   IN /\ nb >= 1 /\ ec >= 7 /\ ec <= 30 /\ DataCW(a, b) > 0
      /\ (TotalCW(a) \div nb) - ec >= 1 /\ (TotalCW(a) \div nb) + 1 <= 255          \* every block is a GF(256) codeword with data
      /\ (b > 0 => DataCW(a, b) < DataCW(a, b - 1))                                  \* stronger level, fewer data codewords
      /\ (a > 1 => DataCW(a, b) > DataCW(a - 1, b))
CapacityBoundaries == phase = "cap" => \A md \in {1, 2, 4} :
   LET m == MaxLen(a, b, md)
       s == EncStream(a, b, md, m)
       p == Parse(s, a, 0, <<>>, <<>>)
   IN /\ Len(s) = 8 * DataCW(a, b) /\ p.ok /\ Len(p.out) = m /\ p.modes = <<md>>
      /\ MinVersion(b, md, m) <= a /\ (a < 40 => MinVersion(b, md, m + 1) \in {a + 1} \cup (IF CountBits(a, md) # CountBits(a + 1, md) THEN {a + 1, a + 2} ELSE {}))
      /\ (a = 40 => MinVersion(b, md, m + 1) = 0)
=============================================================================
