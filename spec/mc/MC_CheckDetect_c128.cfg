SPECIFICATION Spec
CONSTANTS Scheme = "c128"
 MaxLen = 103
INVARIANTS SingleSubstitutionDetected NoChangeNoAlarm
CHECK_DEADLOCK FALSE
