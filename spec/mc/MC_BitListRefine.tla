--------------------------- MODULE MC_BitListRefine ---------------------------
(* Refinement BitListImpl => BitList for scaled constants, two bounded configurations:  *)
(*  - "small": every operation, every content, lengths up to MaxLen (12 quick, 18 thorough:  *)
(*     crosses word and growth boundaries at 8 and 16 bits with W=8, GMIN=1, GMAX=2)     *)
(*  - "long": appends of 3 and 8 bits and reads only, lengths up to 70 (growth schedule  *)
(*     1,2,4,6,8,10 words, i.e. minimum growth, doubling and the cap)                     *)
EXTENDS BitListImpl
smallNewSizes == {0, 1, 7, 8, 9}
smallBitsArgs == {<<5, 3>>, <<0, 1>>, <<2, 2>>}
smallByteArgs == {0, 165, 255}
smallBitRuns  == {<<1>>, <<1, 0, 1>>}
longNewSizes == {0, 9}
longBitsArgs == {<<5, 3>>}
longByteArgs == {165}
longBitRuns  == {}
PBytesViewIsPacked == ABS!BytesViewIsPacked
PAppends == ABS!AppendsArePrefixExtensions
PReads == ABS!ReadsChangeNothing
PSet == ABS!SetChangesExactlyOneBit
PNew == ABS!NewIsAllZero
PGet == ABS!ReadsReturnTheBit
View == <<count, data>>
NextNoSet == \/ \E n \in NewSizes : New(n)
             \/ \E a \in BitsArgs : AddBits(a[1], a[2])
             \/ \E b \in ByteArgs : AddByte(b)
             \/ \E i \in {0, count - 1} : i >= 0 /\ GetBit(i)
             \/ LenOp \/ GetBytes \/ IterateBytes
SpecNoSet == Init /\ [][NextNoSet]_vars
=============================================================================
