----------------------------- MODULE MC_CheckDetect -----------------------------
(* What the check values of C14 are FOR: every substitution of a single symbol value changes the check value, so a      *)
(* reader that recomputes it (EAN!Read, Code39!Read93, Codabar!Read25 with a check digit) refuses the damaged symbol.     *)
(* Two equal-length value sequences a and b are read left to right as one automaton run; they differ in at most one      *)
(* position (`hit`), and only the difference of the two running weighted sums is kept (`delta`), so the state space is    *)
(* (length, position, delta, hit) for every length up to MaxLen, every position and every pair of differing values.       *)
(* Schemes: "ean" (GS1 weights 3,1 from the right, mod 10; also CheckDigit25), "c93c" and "c93k" (Code 93 weights         *)
(* 1..20 / 1..15 from the right, mod 47; K is computed over data + C, which is one more position of the same automaton).   *)
(* The automaton is tied to the operators the trace specifications evaluate (EAN!Check, Codabar!CheckDigit25,             *)
(* Code39!Weighted) by the ASSUMEs below over all short sequences; those operators are bound to the code by C06/C07/C08/C14.*)
(* A transposition lemma is deliberately absent: GS1 weights do not detect swapping digits that differ by five.           *)
EXTENDS Integers, Sequences, FiniteSets, TLC
CONSTANTS Scheme, MaxLen
E == INSTANCE EAN
C == INSTANCE Code39
D == INSTANCE Codabar

M == IF Scheme = "ean" THEN 10 ELSE 47
W(n, i) == IF Scheme = "ean" THEN (IF (n - i) % 2 = 0 THEN 3 ELSE 1)
           ELSE ((n - i) % (IF Scheme = "c93c" THEN 20 ELSE 15)) + 1
Fold(vals) == LET n == Len(vals)
                  F[i \in 0..n] == IF i = 0 THEN 0 ELSE (F[i - 1] + vals[i] * W(n, i)) % M
              IN F[n]
Short == IF Scheme = "ean" THEN UNION {[1..k -> 0..9] : k \in 1..3} ELSE UNION {[1..k -> 0..46] : k \in 1..2}
ASSUME Scheme \in {"ean", "c93c", "c93k"}
ASSUME Scheme = "ean" => \A v \in Short : E!Check(v) = (10 - Fold(v)) % 10 /\ D!CheckDigit25(v) = E!Check(v)
ASSUME Scheme = "c93c" => \A v \in Short : C!Weighted(v, 20) = Fold(v)
ASSUME Scheme = "c93k" => \A v \in Short : C!Weighted(v, 15) = Fold(v)

VARIABLES n, i, delta, hit
vars == <<n, i, delta, hit>>
Init == n \in 1..MaxLen /\ i = 0 /\ delta = 0 /\ hit = FALSE
Same == i < n /\ i' = i + 1 /\ UNCHANGED <<n, delta, hit>>          \* a[i] = b[i]: the difference of the sums is unchanged
Differ == /\ i < n /\ ~hit
          /\ \E x \in 0..(M - 1), y \in 0..(M - 1) :
                /\ x # y
                /\ delta' = (delta + (x - y) * W(n, i + 1) + M * 64) % M
          /\ i' = i + 1 /\ hit' = TRUE /\ n' = n
Next == Same \/ Differ
Spec == Init /\ [][Next]_vars
\* the check value is a bijection of the running sum ((10 - s) % 10, or s itself), so "sums differ" is "check values differ"
SingleSubstitutionDetected == hit => delta # 0
NoChangeNoAlarm == ~hit => delta = 0
HitReachable == ~(i = n /\ hit /\ n = MaxLen)      \* negative control: must be VIOLATED (run with the _reach cfg)
=============================================================================
