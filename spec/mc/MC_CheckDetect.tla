----------------------------- MODULE MC_CheckDetect -----------------------------
(* What the check values of C14 are FOR: every substitution of a single symbol value changes the check value, so a      *)
(* reader that recomputes it (EAN!Read, Code39!Read93, Codabar!Read25 with a check digit) refuses the damaged symbol.     *)
(* Two equal-length value sequences a and b are read left to right as one automaton run; they differ in at most one      *)
(* position (`hit`), and only the difference of the two running weighted sums is kept (`delta`), so the state space is    *)
(* (length, position, delta, hit) for every length up to MaxLen, every position and every pair of differing values.       *)
(* Schemes: "ean" (GS1 weights 3,1 from the right, mod 10; also CheckDigit25), "c93c" and "c93k" (Code 93 weights         *)
(* 1..20 / 1..15 from the right, mod 47; K is computed over data + C, which is one more position of the same automaton).   *)
(* The automaton is tied to the operators the trace specifications evaluate (EAN!Check, Codabar!CheckDigit25,             *)
(* Code39!Weighted) by the ASSUMEs below over all short sequences; those operators are bound to the code by C06/C07/C08/C14.*)
(* "c39": plain sum modulo 43. "c128": start character weight 1, k-th data symbol weight k, modulo 103 - detection holds   *)
(* while every weight is below 103, i.e. up to 102 data symbols; the _c128limit cfg (104 positions) must be VIOLATED: a     *)
(* substitution at data position 103 is invisible to the standard's check character (a content may need up to 161 symbols).*)
(* A transposition lemma is deliberately absent: GS1 weights do not detect swapping digits that differ by five.           *)
EXTENDS Integers, Sequences, FiniteSets, TLC
CONSTANTS Scheme, MaxLen
E == INSTANCE EAN
C == INSTANCE Code39
D == INSTANCE Codabar

M == CASE Scheme = "ean" -> 10 [] Scheme = "c39" -> 43 [] Scheme = "c128" -> 103 [] OTHER -> 47
W(n, i) == CASE Scheme = "ean" -> (IF (n - i) % 2 = 0 THEN 3 ELSE 1)
             [] Scheme = "c39" -> 1                                    \* Code 39: plain sum modulo 43
             [] Scheme = "c128" -> IF i = 1 THEN 1 ELSE i - 1          \* Code 128: start character weight 1, k-th data symbol weight k
             [] OTHER -> ((n - i) % (IF Scheme = "c93c" THEN 20 ELSE 15)) + 1
Fold(vals) == LET n == Len(vals)
                  F[i \in 0..n] == IF i = 0 THEN 0 ELSE (F[i - 1] + vals[i] * W(n, i)) % M
              IN F[n]
Short == IF Scheme = "ean" THEN UNION {[1..k -> 0..9] : k \in 1..3} ELSE UNION {[1..k -> 0..(M - 1)] : k \in 1..2}
K == INSTANCE Code128
ASSUME Scheme \in {"ean", "c93c", "c93k", "c39", "c128"}
ASSUME Scheme = "c39" => \A v \in Short : E!Sum(v) % 43 = Fold(v)            \* the rule Read39 / Draw39 apply inline
ASSUME Scheme = "c128" => \A v \in Short : K!CheckValue(v) = Fold(v)
ASSUME Scheme = "ean" => \A v \in Short : E!Check(v) = (10 - Fold(v)) % 10 /\ D!CheckDigit25(v) = E!Check(v)
ASSUME Scheme = "c93c" => \A v \in Short : C!Weighted(v, 20) = Fold(v)
ASSUME Scheme = "c93k" => \A v \in Short : C!Weighted(v, 15) = Fold(v)

VARIABLES n, i, delta, hit
vars == <<n, i, delta, hit>>
Init == n \in 1..MaxLen /\ i = 0 /\ delta = 0 /\ hit = FALSE
Same == i < n /\ i' = i + 1 /\ UNCHANGED <<n, delta, hit>>          \* a[i] = b[i]: the difference of the sums is unchanged
Differ == /\ i < n /\ ~hit
          \* a[i] # b[i]: the symbol values are 0..M-1 in every scheme, so (a[i] - b[i]) % M ranges over exactly 1..M-1
          /\ \E dd \in 1..(M - 1) : delta' = (delta + dd * W(n, i + 1)) % M
          /\ i' = i + 1 /\ hit' = TRUE /\ n' = n
Next == Same \/ Differ
Spec == Init /\ [][Next]_vars
\* the check value is a bijection of the running sum ((10 - s) % 10, or s itself), so "sums differ" is "check values differ"
SingleSubstitutionDetected == hit => delta # 0
NoChangeNoAlarm == ~hit => delta = 0
HitReachable == ~(i = n /\ hit /\ n = MaxLen)      \* negative control: must be VIOLATED (run with the _reach cfg)
=============================================================================
