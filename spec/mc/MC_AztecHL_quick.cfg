SPECIFICATION Spec
CONSTANTS
  MaxLen = 4
  BSFix = TRUE
  Prefix <- NoPrefix
INVARIANT RoundTrip
CHECK_DEADLOCK FALSE
