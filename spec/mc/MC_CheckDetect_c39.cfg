SPECIFICATION Spec
CONSTANTS Scheme = "c39"
 MaxLen = 45
INVARIANTS SingleSubstitutionDetected NoChangeNoAlarm
CHECK_DEADLOCK FALSE
