SPECIFICATION Spec
CONSTANTS
  MaxLen = 7
  BSFix = TRUE
  Prefix <- PunctRun
INVARIANT RoundTrip
CHECK_DEADLOCK FALSE
