SPECIFICATION Spec
CONSTANTS
  ExactFitOK = FALSE
  MaxBits = 2
INVARIANTS StuffOK SelOK
CHECK_DEADLOCK FALSE
