SPECIFICATION Spec
CONSTANTS
  FullUpTo = 256
  AssocUpTo = 16
INVARIANTS FieldIsPrimitive MulIsPolynomialMul Commutative Associative Distributive Identity InverseExistsUnique DivisionUndoesMul GenHasRoots
CHECK_DEADLOCK FALSE
