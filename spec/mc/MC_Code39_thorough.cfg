SPECIFICATION Spec
CONSTANTS
  Pairs = TRUE
  MaxRun = 45
INVARIANTS SpellingResolves ReadersInvertDrawing WeightsWrap
CHECK_DEADLOCK FALSE
