------------------------------- MODULE MC_AztecSel -------------------------------
(* (stuff) stuffBits transcription: for every bit string up to MaxBits and every codeword size, no emitted codeword is all zeros or all    *)
(* ones, and un-stuffing (dropping the complement bit after w-1 equal bits) gives back the stream followed by one-padding;                *)
(* (sel) the size selection on abstract streams: raw length n, stuffed length = n rounded up to the codeword size plus x extra codewords: *)
(* the selected size carries the requested percentage, holds the stuffed stream, and every smaller size is refused on explicit request.   *)
EXTENDS AztecSel, TLC
CONSTANT MaxBits
VARIABLES phase, s, a
vars == <<phase, s, a>>
Init == \/ phase = "stuff" /\ s = <<>> /\ a = 0
        \/ phase = "sel" /\ s = <<>> /\ a \in {0, 1, 10, 23, 33, 50, 99, 100, 150}
Next == \/ phase = "stuff" /\ Len(s) < MaxBits /\ \E b \in {0, 1} : s' = Append(s, b) /\ UNCHANGED <<phase, a>>
        \/ phase = "sel" /\ Len(s) = 0 /\ FALSE /\ UNCHANGED vars
Spec == Init /\ [][Next]_vars

Unstuff1(words, w) == FoldLeft(LAMBDA acc, x : acc \o Unstuff(x, w), <<>>, words)
StuffOK == phase = "stuff" => \A w \in {6, 8, 10, 12} :
  LET ws == StuffWords(s, w)
      u == Unstuff1(ws, w)
  IN /\ \A i \in 1..Len(ws) : ws[i] \in 1..(2 ^ w - 2)
     /\ (s = <<>> => ws = <<2 ^ w - 2>>)
     /\ (s # <<>> => Len(u) >= Len(s) /\ SubSeq(u, 1, Len(s)) = s /\ (\A i \in (Len(s) + 1)..Len(u) : u[i] = 1) /\ Len(u) - Len(s) < w)

\* abstract streams for the selection rule
Lens == (0..140) \cup {300, 380, 384, 385, 500, 512, 600, 1000, 2000, 4000, 8000, 12000, 16000, 17500, 18000, 19000, 20000}
SelOK == phase = "sel" => \A n \in Lens : \A x \in 0..3 : \A req \in {0} \cup (-4..-1) \cup (1..32) :
  LET st(w) == (((n + w - 1) \div w) + x) * w
      r == SelectFrom(n, st, a, req)
      sz(c, L) == SymbolSize(L, c)
  IN /\ (r.ok => LET w == WordSize(r.layers)
                      tot == TotalBits(r.layers, r.compact)
                  IN /\ st(w) <= tot - (tot % w)
                     /\ (tot \div w) * w - st(w) >= (n * a) \div 100                      \* check bits carried >= requested share of the data bits
                     /\ (r.compact => st(w) <= 64 * w))
     /\ (req = 0 /\ r.ok => \A q \in (-4..-1) \cup (1..32) :
            sz(q < 0, Abs(q)) < sz(r.compact, r.layers) => ~SelectFrom(n, st, a, q).ok)       \* no smaller size is accepted explicitly
     /\ (req = 0 /\ ~r.ok => \A q \in (-4..-1) \cup (1..32) : ~SelectFrom(n, st, a, q).ok)    \* refused only if nothing fits
=============================================================================
