---------------------------- MODULE MC_BitListGrowth ----------------------------
(* The growth rule of BitListImpl with the REAL constants (W = 32, GMIN = 128, GMAX = 1024), on lengths only: for every initial  *)
(* size the capacity schedule is strictly increasing, grows by at least GMIN and at most GMAX words per step, and Grow on a      *)
(* data sequence has exactly that length.  The schedules are printed as JSON: the check turns every capacity boundary (a bit    *)
(* index that is simultaneously a word boundary and the end of the backing slice) into operation sequences that straddle it.    *)
EXTENDS Integers, Sequences, Json, TLC
VARIABLE n0
BI == INSTANCE BitListImpl WITH W <- 32, GMIN <- 128, GMAX <- 1024, MaxLen <- 0, NewSizes <- {}, BitsArgs <- {}, ByteArgs <- {}, BitRuns <- {},
                                count <- 0, data <- <<>>, last <- <<>>
Sizes == {0, 1, 31, 32, 33, 100, 4095, 4096, 4097, 40000}
Init == n0 \in Sizes
Next == FALSE /\ UNCHANGED n0
Spec == Init /\ [][Next]_n0
Words(n) == (n \div 32) + (IF n % 32 # 0 THEN 1 ELSE 0)
Sched == BI!CapSchedule(Words(n0), 8)
ScheduleLaws == /\ \A k \in 1..8 : LET prev == IF k = 1 THEN Words(n0) ELSE Sched[k - 1] IN Sched[k] - prev \in 128..1024 /\ Sched[k] > prev
                /\ Len(BI!Grow([i \in 1..Words(n0) |-> 0])) = Sched[1]
                /\ PrintT(<<"SCHEDULE", ToJson([n0 |-> n0, caps |-> Sched])>>)
=============================================================================
