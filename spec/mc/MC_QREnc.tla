------------------------------- MODULE MC_QREnc -------------------------------
(* QR encoder model || segment automaton: every string up to MaxLen over representative bytes (two digits, an upper-case letter, *)
(* the last character of the alphanumeric set, a lower-case letter, a sign, a space, a byte above 127), all four levels and     *)
(* all four API modes; plus long runs (Runs) of one class through the character-count width changes.                             *)
EXTENDS QREnc, TLC
CONSTANT MaxLen
VARIABLE s
Alphabet == {49, 57, 65, 58, 97, 43, 32, 200}
Init == s = <<>>
Next == Len(s) < MaxLen /\ \E c \in Alphabet : s' = Append(s, c)
Spec == Init /\ [][Next]_s

Good(bytes, level, apimode) ==
  LET e == Enc(bytes, level, apimode)
      md == ModeFor(apimode, bytes)
  IN IF ~Representable(bytes, level, apimode) THEN ~e.ok
     ELSE /\ e.ok /\ e.v = MinVersion(level, md, Len(bytes)) /\ Len(e.bits) = 8 * DataCW(e.v, level)
          /\ LET p == Parse(e.bits, e.v, 0, <<>>, <<>>) IN p.ok /\ p.out = bytes /\ p.modes = <<md>>
RoundTrip == \A level \in 0..3, apimode \in 0..3 : Good(s, level, apimode)
=============================================================================
