SPECIFICATION SpecNoSet
CONSTANTS
  W = 8
  GMIN = 1
  GMAX = 2
  MaxLen = 70
  NewSizes <- longNewSizes
  BitsArgs <- longBitsArgs
  ByteArgs <- longByteArgs
  BitRuns <- longBitRuns
INVARIANTS Allocated SlackIsZero WordsInRange
PROPERTIES StepRefines PAppends PReads PNew PBytesViewIsPacked PGet
VIEW View
CHECK_DEADLOCK FALSE
