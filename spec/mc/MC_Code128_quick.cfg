SPECIFICATION Spec
CONSTANT MaxLen = 5
INVARIANTS RefusesExactlyUnrepresentable RoundTrip StartsWithStart
CHECK_DEADLOCK FALSE
