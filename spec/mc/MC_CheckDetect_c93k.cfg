SPECIFICATION Spec
CONSTANTS Scheme = "c93k"
 MaxLen = 45
INVARIANTS SingleSubstitutionDetected NoChangeNoAlarm
CHECK_DEADLOCK FALSE
