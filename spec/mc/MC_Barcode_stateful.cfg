SPECIFICATION Spec
CONSTANTS
  Args <- mcArgs
  Bufs <- mcBufs
  Vals <- mcVals
  MaxHandles = 3
  Aliasing = FALSE
  Stateful = TRUE
INVARIANT Deterministic

CHECK_DEADLOCK FALSE
