SPECIFICATION Spec
CONSTANT MaxLen = 4
INVARIANTS CodabarOK TwoOfFiveOK
CHECK_DEADLOCK FALSE
