SPECIFICATION Spec
CONSTANT MaxLen = 4
INVARIANT RoundTrip
CHECK_DEADLOCK FALSE
