SPECIFICATION Spec
CONSTANTS
  MaxLen = 4
  SignFix = TRUE
INVARIANT RoundTrip
CHECK_DEADLOCK FALSE
