SPECIFICATION Spec
CONSTANT MaxLen = 8
INVARIANTS PlacementOK SizeLaws AsciiRoundTrip
CHECK_DEADLOCK FALSE
