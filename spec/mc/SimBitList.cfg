SPECIFICATION SimSpec
CONSTANTS
  MaxLen = 400
  Depth = 25
  NewSizes <- simNewSizes
  BitsArgs <- simBitsArgs
  ByteArgs <- simByteArgs
  BitRuns <- simBitRuns
CHECK_DEADLOCK FALSE
