SPECIFICATION Spec
CONSTANTS
  W = 8
  GMIN = 1
  GMAX = 2
  MaxLen = 12
  NewSizes <- smallNewSizes
  BitsArgs <- smallBitsArgs
  ByteArgs <- smallByteArgs
  BitRuns <- smallBitRuns
INVARIANTS Allocated SlackIsZero WordsInRange
PROPERTIES StepRefines PAppends PReads PSet PNew PBytesViewIsPacked PGet
VIEW View
CHECK_DEADLOCK FALSE
