SPECIFICATION Spec
CONSTANT Versions <- AllVersions
INVARIANTS AgreesWithClosedForm CountsAtEnd
CHECK_DEADLOCK FALSE
