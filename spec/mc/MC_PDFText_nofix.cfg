SPECIFICATION Spec
CONSTANTS
  MaxLen = 12
  PadFix = FALSE
  Alphabet <- SmallAlphabet
  Prefix <- PunctPrefix
INVARIANT RoundTrip
CHECK_DEADLOCK FALSE
