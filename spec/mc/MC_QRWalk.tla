------------------------------- MODULE MC_QRWalk -------------------------------
(* The module placement walk of ISO/IEC 18004 as a state machine (column pairs from the right, alternately upwards and *)
(* downwards, skipping the timing column), for all 40 versions: it agrees step by step with the closed form Pos used  *)
(* by the reader, visits d*(d-1) positions, and the number of non-function modules equals the standard's capacity     *)
(* formula RawModules(v) = Len(Order(v)).                                                                              *)
EXTENDS QR, TLC
CONSTANT Versions
AllVersions == 1..40
SomeVersions == {1, 2, 6, 7, 10, 14, 21, 27, 32, 40}
VARIABLES v, x, y, up, k, n, done
vars == <<v, x, y, up, k, n, done>>
D == Dim(v)
Init == v \in Versions /\ x = Dim(v) - 1 /\ y = Dim(v) - 1 /\ up = TRUE /\ k = 0 /\ n = 0 /\ done = FALSE
Free(a, b) == IF IsFn(v, Band(v), a, b) THEN 0 ELSE 1
Step == /\ ~done /\ v' = v /\ k' = k + 2 /\ n' = n + Free(x, y) + Free(x - 1, y)
        /\ IF up
           THEN IF y - 1 < 0
                THEN LET nx == IF x - 2 = 6 THEN x - 3 ELSE x - 2
                     IN /\ y' = 0 /\ x' = nx /\ done' = (nx < 0) /\ up' = FALSE
                ELSE y' = y - 1 /\ UNCHANGED <<x, up, done>>
           ELSE IF y + 1 >= D
                THEN LET nx == IF x - 2 = 6 THEN x - 3 ELSE x - 2
                     IN /\ y' = D - 1 /\ x' = nx /\ done' = (nx < 0) /\ up' = TRUE
                ELSE y' = y + 1 /\ UNCHANGED <<x, up, done>>
Spec == Init /\ [][Step]_vars
AgreesWithClosedForm == ~done => Pos(v, k) = <<x, y>> /\ Pos(v, k + 1) = <<x - 1, y>>
CountsAtEnd == done => LET o == Order(v) IN
                       /\ k = D * (D - 1)
                       /\ n = RawModules(v)
                       /\ Len(o) = n
                       /\ Cardinality({o[i] : i \in 1..n}) = n
                       /\ TotalCW(v) * 8 + (n % 8) = n
=============================================================================
