------------------------------- MODULE MC_PDFDims -------------------------------
(* For every number of data codewords 0..930 and every security level 0..8: the shape chooser (transcription) accepts exactly when an     *)
(* admissible shape exists; the shape it returns holds the message with fewer pad codewords than columns and exactly rows x columns       *)
(* codewords in total (C10 / C13 at the design level).                                                                                      *)
EXTENDS PDFDims, TLC
VARIABLES m, lv
Init == m \in 0..930 /\ lv \in 0..8
Next == FALSE /\ UNCHANGED <<m, lv>>
Spec == Init /\ [][Next]_<<m, lv>>
K == 2 ^ (lv + 1)
AcceptsIffAdmissible == Accepted(m, K) <=> Admissible(m, K)
ShapeHoldsMessage == Accepted(m, K) =>
   LET d == Choose(m, K)
       pad == PadCount(m, K, d.cols)
   IN /\ pad < d.cols
      /\ (m + 1 + K + pad = d.rows * d.cols \/ (d.rows = 2 /\ d.cols = 2 /\ m + 1 + K + pad <= 4))
=============================================================================
