SPECIFICATION Spec
CONSTANT MaxBits = 11
INVARIANTS StuffOK SelOK
CHECK_DEADLOCK FALSE
