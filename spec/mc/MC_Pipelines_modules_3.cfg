SPECIFICATION Spec
CONSTANTS
  Kind = "modules"
  Produced = 0
  Consumed = 0
  Points <- mcPoints3
  Content <- mcNone
INVARIANTS FilteredInOrder
PROPERTIES CallReturns NoLeak
CHECK_DEADLOCK FALSE
