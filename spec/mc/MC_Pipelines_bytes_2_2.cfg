SPECIFICATION Spec
CONSTANTS
  Kind = "bytes"
  Produced = 2
  Consumed = 2
  Points <- mcNone
  Content <- mcNone
INVARIANTS NoZeroFill InOrder
PROPERTIES CallReturns NoLeak
CHECK_DEADLOCK FALSE
