SPECIFICATION Spec
CONSTANTS
  Clients <- mcClients3
  MaxDeg = 3
  MaxCalls = 1
  FieldKey <- mcField
  Locked = TRUE
INVARIANTS MutualExclusion CacheCorrect ResultCorrect
PROPERTIES CacheAppendOnly EveryCallReturns
CHECK_DEADLOCK FALSE
