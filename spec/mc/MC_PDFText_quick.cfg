SPECIFICATION Spec
CONSTANTS
  MaxLen = 6
  PadFix = TRUE
  Alphabet <- FullAlphabet
  Prefix <- NoPrefix
INVARIANT RoundTrip
CHECK_DEADLOCK FALSE
