------------------------------ MODULE SimRSCache ------------------------------
(* Behaviour generator for schedule replay (spec -> code): random walks of RSCache.tla; the calls (client, degree) and the order *)
(* of lock acquisitions are carried in `hist` and printed as JSON when every client has made its calls and returned.            *)
EXTENDS RSCache, Json
VARIABLES hist, fin
simClients == {"c0", "c1", "c2"}
simField == <<19, 16, 1>>
SimInit == Init /\ hist = <<>> /\ fin = FALSE
AllDone == \A c \in Clients : pc[c] = "idle" /\ ncalls[c] = MaxCalls
SimNext == \/ /\ ~AllDone /\ ~fin /\ fin' = fin
              /\ \E c \in Clients :
                   \/ \E deg \in 1..MaxDeg : Call(c, deg) /\ hist' = Append(hist, [a |-> "call", c |-> c, d |-> deg])
                   \/ Lock(c) /\ hist' = Append(hist, [a |-> "lock", c |-> c, d |-> want[c]])
                   \/ (Check(c) \/ Loop(c) \/ Return(c)) /\ hist' = hist
           \/ AllDone /\ ~fin /\ PrintT(<<"BEHAVIOUR", ToJson(hist)>>) /\ fin' = TRUE /\ UNCHANGED <<vars, hist>>
SimSpec == SimInit /\ [][SimNext]_<<vars, hist, fin>>
=============================================================================
