SPECIFICATION Spec
CONSTANTS
  Kind = "bytes"
  Produced = 2
  Consumed = 3
  Points <- mcNone
  Content <- mcNone
INVARIANTS NoZeroFill
PROPERTIES CallReturns
CHECK_DEADLOCK FALSE
