------------------------------- MODULE MC_Code39 -------------------------------
(* Code 39 / Code 93: for every pair (quick: every single and a diagonal of pairs) of ASCII characters the full-ASCII *)
(* spelling resolves back, and the readers invert the standards' drawing rules with and without check characters;   *)
(* check-character weights are exercised for lengths up to MaxRun (crossing 15 and 20).                              *)
EXTENDS Code39, TLC
CONSTANTS Pairs, MaxRun
VARIABLES a, b
vars == <<a, b>>
Init == a \in 0..127 /\ b = -1
Next == Pairs /\ b < 127 /\ b' = b + 1 /\ a' = a
Spec == Init /\ [][Next]_vars
Txt == IF b < 0 THEN <<a>> ELSE <<a, b>>
SpellingResolves ==
  /\ Resolve([i \in 1..Len(SpellAll(Spell39, Txt)) |-> C39Item(SpellAll(Spell39, Txt)[i])]).out = Txt
  /\ Resolve([i \in 1..Len(SpellAll(Spell93, Txt)) |-> C93Item(SpellAll(Spell93, Txt)[i])]).out = Txt
ReadersInvertDrawing ==
  \A wc \in BOOLEAN :
    /\ LET rd == Read39(Draw39(SpellAll(Spell39, Txt), wc), wc, TRUE) IN rd.ok /\ rd.runes = Txt
    /\ LET rd == Read93(Draw93(SpellAll(Spell93, Txt), wc), wc, TRUE) IN rd.ok /\ rd.runes = Txt
\* long runs over a 3-value alphabet derived from (a, b): weights wrap at 15 / 20
Run(n) == [i \in 1..n |-> (a * i + (IF b < 0 THEN 0 ELSE b) + i * i) % 43]
WeightsWrap == (b < 0 /\ a <= MaxRun) =>
   /\ LET rd == Read93(Draw93(Run(a), TRUE), TRUE, FALSE) IN rd.ok /\ rd.spelled = [i \in 1..a |-> C93Rune(Run(a)[i])]
   /\ LET rd == Read39(Draw39(Run(a), TRUE), TRUE, FALSE) IN rd.ok /\ rd.cs = Sum(Run(a)) % 43
=============================================================================
