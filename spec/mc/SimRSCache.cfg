SPECIFICATION SimSpec
CONSTANTS
  Clients <- simClients
  MaxDeg = 9
  MaxCalls = 2
  FieldKey <- simField
  Locked = TRUE
CHECK_DEADLOCK FALSE
