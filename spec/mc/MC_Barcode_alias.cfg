SPECIFICATION Spec
CONSTANTS
  Args <- mcArgs
  Bufs <- mcBufs
  Vals <- mcVals
  MaxHandles = 3
  Aliasing = TRUE
  Stateful = FALSE

PROPERTY Immutable
CHECK_DEADLOCK FALSE
