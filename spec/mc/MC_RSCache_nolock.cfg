SPECIFICATION Spec
CONSTANTS
  Clients <- mcClients2
  MaxDeg = 3
  MaxCalls = 2
  FieldKey <- mcField
  Locked = FALSE
INVARIANTS CacheCorrect
CHECK_DEADLOCK FALSE
