SPECIFICATION Spec
CONSTANTS
  MaxLen = 3
  SignFix = FALSE
INVARIANT RoundTrip
CHECK_DEADLOCK FALSE
