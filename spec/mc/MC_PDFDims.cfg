SPECIFICATION Spec
INVARIANTS AcceptsIffAdmissible ShapeHoldsMessage
CHECK_DEADLOCK FALSE
