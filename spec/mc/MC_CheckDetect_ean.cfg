SPECIFICATION Spec
CONSTANTS Scheme = "ean"
 MaxLen = 14
INVARIANTS SingleSubstitutionDetected NoChangeNoAlarm
CHECK_DEADLOCK FALSE
