SPECIFICATION Spec
CONSTANTS
  MaxSrc = 4
  MaxT = 13
INVARIANTS FactorClosedForm FailsExactlyWhenTooSmall PictureAllowed ChainAllowed
CHECK_DEADLOCK FALSE
