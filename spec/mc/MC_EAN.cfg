SPECIFICATION Spec
INVARIANTS CheckIsAutomaton ExactlyOneFinalDigit PrefixAlwaysAccepted ReaderInvertsDrawing
VIEW View
CHECK_DEADLOCK FALSE
