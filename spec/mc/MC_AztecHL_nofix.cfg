SPECIFICATION Spec
CONSTANTS
  MaxLen = 7
  BSFix = FALSE
  Prefix <- PunctRun
INVARIANT RoundTrip
CHECK_DEADLOCK FALSE
