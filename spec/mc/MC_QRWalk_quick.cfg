SPECIFICATION Spec
CONSTANT Versions <- SomeVersions
INVARIANTS AgreesWithClosedForm CountsAtEnd
CHECK_DEADLOCK FALSE
