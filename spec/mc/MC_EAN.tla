-------------------------------- MODULE MC_EAN --------------------------------
(* The check-digit rule as an automaton (state: target length, position, running weighted sum mod 10), explored for *)
(* all digit strings through the VIEW <<target, position, sum, first digit, last digit>>; at full length: exactly  *)
(* one final digit is accepted, it is Check(prefix), and the reader inverts the standard's drawing rule.            *)
EXTENDS EAN, TLC
VARIABLES T, ds, s
vars == <<T, ds, s>>
Init == T \in {7, 12} /\ ds = <<>> /\ s = 0
\* weights 3,1,3,.. from the right of a T-digit prefix: position i (1-based) has weight 3 iff (T - i) is even
Next == /\ Len(ds) < T
        /\ \E d \in 0..9 : /\ ds' = Append(ds, d)
                            /\ s' = (s + d * (IF (T - (Len(ds) + 1)) % 2 = 0 THEN 3 ELSE 1)) % 10
        /\ T' = T
Spec == Init /\ [][Next]_vars
View == <<T, Len(ds), s, IF ds = <<>> THEN -1 ELSE ds[1], IF ds = <<>> THEN -1 ELSE ds[Len(ds)]>>
AtEnd == Len(ds) = T
CheckIsAutomaton == AtEnd => Check(ds) = (10 - s) % 10
ExactlyOneFinalDigit == AtEnd => \A d \in 0..9 : (Representable([i \in 1..(T + 1) |-> 48 + Append(ds, d)[i]]) <=> d = Check(ds))
PrefixAlwaysAccepted == AtEnd => Representable([i \in 1..T |-> 48 + ds[i]])
ReaderInvertsDrawing == AtEnd => LET full == Append(ds, Check(ds))
                                     rd == Read(Draw(full))
                                 IN rd.ok /\ rd.runes = [i \in 1..(T + 1) |-> 48 + full[i]] /\ rd.cs = Check(ds)
                                    /\ Len(Draw(full)) = (IF T = 7 THEN 67 ELSE 95)
=============================================================================
