SPECIFICATION Spec
CONSTANT MaxLen = 6
INVARIANTS PlacementOK SizeLaws AsciiRoundTrip
CHECK_DEADLOCK FALSE
