------------------------------ MODULE MC_Code128 ------------------------------
(* Encoder model || reader: every string over a representative alphabet (a digit, another digit, FNC1, FNC2, *)
(* an A&B character, a B-only character, an A-only control character, an unencodable rune) up to MaxLen.     *)
EXTENDS Code128Enc, TLC
CONSTANT MaxLen
VARIABLE s
Alphabet == {49, 55, 241, 242, 65, 97, 1, 200}
Init == s = <<>>
Next == Len(s) < MaxLen /\ \E c \in Alphabet : s' = Append(s, c)
Spec == Init /\ [][Next]_s

Vals == Encode(s)
\* the model refuses exactly the strings with an unencodable rune
RefusesExactlyUnrepresentable == s # <<>> => ((Vals = <<>>) <=> ~Representable(s))
\* what it emits decodes to the input; every value is legal where it stands (Decode fails otherwise)
RoundTrip == (s # <<>> /\ Vals # <<>>) => LET d == Decode(Vals) IN d.ok /\ d.shift = "" /\ d.out = s
\* set C is only ever used for digit pairs and FNC1
StartsWithStart == (s # <<>> /\ Vals # <<>>) => Vals[1] \in {103, 104, 105}
=============================================================================
