-------------------------------- MODULE MC_PDF417 --------------------------------
(* PDF417: (tab) every one of the 3 x 929 pinned patterns obeys the structural laws of ISO/IEC 15438 (17 modules, starts with a *)
(* bar, four bars and four spaces each 1..6 modules wide, cluster number (b1-b2+b3-b4) mod 9 equal to 0/3/6 of its table) and   *)
(* patterns are distinct within a cluster; start/stop patterns have the standard run lengths; (gf) 3 generates GF(929)*;        *)
(* (conv) byte and numeric compaction conversions invert the standard's packing rule for sampled groups;                        *)
(* (dims) for all data-word counts and levels some shape with 2..30 rows and columns holds the message with less than one row  *)
(* of padding exactly when the total is at most 900 - see MC note in DESIGN.md.                                                  *)
EXTENDS PDF417, TLC
VARIABLES phase, a, b
vars == <<phase, a, b>>
Init == \/ phase = "tab" /\ a \in 1..3 /\ b \in 1..929
        \/ phase = "gf" /\ a = 0 /\ b = 0
        \/ phase = "conv" /\ a \in 0..40 /\ b \in 0..5
        \/ phase = "dims" /\ a \in 1..925 /\ b \in 0..8
Next == FALSE /\ UNCHANGED vars
Spec == Init /\ [][Next]_vars

Bits17(v) == [i \in 1..17 |-> (v \div 2 ^ (17 - i)) % 2]
TableLaws == phase = "tab" =>
  LET v == PDFPatterns[a][b]
      rs == Runs(Bits17(v))
  IN /\ v \in 65536..131071 /\ v % 2 = 0
     /\ Len(rs) = 8 /\ \A i \in 1..8 : rs[i][2] \in 1..6
     /\ (rs[1][2] - rs[3][2] + rs[5][2] - rs[7][2] + 9) % 9 = 3 * (a - 1)
     /\ \A j \in 1..929 : j # b => PDFPatterns[a][j] # v
     /\ PatIdx[a][v - 65536] = b - 1
StartStop == phase = "gf" =>
  /\ [i \in 1..8 |-> Runs(Bits17(StartPat))[i][2]] = <<8, 1, 1, 1, 1, 1, 1, 3>>
  /\ [i \in 1..9 |-> Runs([j \in 1..18 |-> (StopPat \div 2 ^ (18 - j)) % 2])[i][2]] = <<7, 1, 1, 3, 1, 1, 1, 2, 1>>
  /\ Cardinality({ModPow(3, j) : j \in 1..928}) = 928
\* packing rules of the standard (encoder side), inverted by the reader's conversions
Conversions == phase = "conv" =>
  LET bytes == [i \in 1..6 |-> (a * 37 + b * 101 + i * i * 29 + (IF a = 40 THEN 255 ELSE 0)) % 256]
      digits == [i \in 1..(1 + a + (IF b = 5 THEN 3 ELSE 0)) |-> (a + b * i + i * i) % 10]
  IN /\ SixBytes(Pack6(bytes)) = bytes /\ Len(Pack6(bytes)) = 5
     /\ Len(digits) <= 44 => LET r == NumDigits(PackNum(digits)) IN r.ok /\ r.out = [i \in 1..Len(digits) |-> 48 + digits[i]] /\ Len(PackNum(digits)) <= 15
\* dimension chooser obligations: some admissible shape exists iff the message fits 30 x 30 (total <= 900 incl. padding < one row)
Total(level) == a + 1 + 2 ^ (b + 1)
Dimensions == phase = "dims" =>
  ((\E c \in 2..30 : LET r == (Total(b) + c - 1) \div c IN r \in 2..30) <=> (Total(b) <= 900 /\ Total(b) > 2))
=============================================================================
