SPECIFICATION Spec
CONSTANTS Scheme = "c93c"
 MaxLen = 3
INVARIANTS HitReachable
CHECK_DEADLOCK FALSE
