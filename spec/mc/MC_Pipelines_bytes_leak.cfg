SPECIFICATION Spec
CONSTANTS
  Kind = "bytes"
  Produced = 3
  Consumed = 2
  Points <- mcNone
  Content <- mcNone
INVARIANTS InOrder
PROPERTIES NoLeak
CHECK_DEADLOCK FALSE
