------------------------------- MODULE MC_1DSmall -------------------------------
(* Codabar and 2 of 5: the readers invert the standards' drawing rules for every string up to MaxLen (2 of 5: wide  *)
(* elements of 2 and of 3 modules), RepresentableCodabar is exactly "start, data*, stop", the interleaved pairing    *)
(* leaves no digit pending, and the check digit makes the 3-1 weighted sum a multiple of ten.                        *)
EXTENDS Codabar, TLC
CONSTANTS MaxLen
VARIABLES kind, s
vars == <<kind, s>>
CodaAlpha == {CodaChars[i] : i \in 1..20}
Init == kind \in {"codabar", "25"} /\ s = <<>>
Next == /\ Len(s) < (IF kind = "codabar" THEN MaxLen - 1 ELSE MaxLen) /\ kind' = kind
        /\ \E c \in (IF kind = "codabar" THEN CodaAlpha ELSE 0..9) : s' = Append(s, c)
Spec == Init /\ [][Next]_vars
CodabarOK == kind = "codabar" /\ s # <<>> =>
   /\ LET rd == ReadCodabar(DrawCodabar(s)) IN rd.ok /\ rd.runes = s
   /\ RepresentableCodabar(s) <=> (Len(s) >= 2 /\ s[1] \in 65..68 /\ s[Len(s)] \in 65..68 /\ \A i \in 2..(Len(s) - 1) : s[i] \notin 65..68)
TwoOfFiveOK == kind = "25" /\ s # <<>> =>
   /\ \A wide \in {2, 3} : LET rd == Read25(Draw25(s, FALSE, wide), FALSE) IN rd.ok /\ rd.runes = [i \in 1..Len(s) |-> 48 + s[i]]
   /\ Len(s) % 2 = 0 => \A wide \in {2, 3} : LET rd == Read25(Draw25(s, TRUE, wide), TRUE) IN rd.ok /\ rd.runes = [i \in 1..Len(s) |-> 48 + s[i]]
   /\ LET c == CheckDigit25(s)
          full == Append(s, c)
          n == Len(full)
      IN /\ c \in 0..9
         /\ Sum([i \in 1..n |-> full[i] * (IF (n - i) % 2 = 1 THEN 3 ELSE 1)]) % 10 = 0
         /\ \A d \in 0..9 : Sum([i \in 1..n |-> Append(s, d)[i] * (IF (n - i) % 2 = 1 THEN 3 ELSE 1)]) % 10 = 0 => d = c
=============================================================================
