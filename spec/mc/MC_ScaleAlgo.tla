----------------------------- MODULE MC_ScaleAlgo -----------------------------
(* ScaleAlgo satisfies Scale for every source shape up to MaxSrc x MaxSrc (pixel (x,y) coloured *)
(* by a position-dependent code so that any misplaced pixel is visible), every request up to     *)
(* MaxT x MaxT, and chains of two scalings.                                                       *)
EXTENDS ScaleAlgo, TLC
CONSTANTS MaxSrc, MaxT
VARIABLES dim, ow, oh, tw, th, stage
vars == <<dim, ow, oh, tw, th, stage>>
Src(d, w, h) == [dim |-> d, w |-> w, h |-> h, px |-> [y \in 1..h |-> [x \in 1..w |-> 10 + ((x * 7 + y * 13) % 5)]]]
Fill == 3
Init == dim \in {1, 2} /\ ow \in 1..MaxSrc /\ oh \in (IF dim = 1 THEN {1} ELSE 1..MaxSrc) /\ tw = 1 /\ th = 1 /\ stage = "w"
Next == \/ tw < MaxT /\ tw' = tw + 1 /\ UNCHANGED <<dim, ow, oh, th, stage>>
        \/ th < MaxT /\ th' = th + 1 /\ UNCHANGED <<dim, ow, oh, tw, stage>>
Spec == Init /\ [][Next]_vars
S == Src(dim, ow, oh)
\* the closed form of the largest fitting factor equals its definition as a maximum
FactorClosedForm == Factor(dim, ow, oh, tw, th) = FactorSet(dim, ow, oh, tw, th)
FailsExactlyWhenTooSmall == AlgoFails(S, tw, th) <=> MustFail(dim, ow, oh, tw, th)
PictureAllowed == ~AlgoFails(S, tw, th) => IsScaled(S, tw, th, Fill, AlgoPicture(S, tw, th, Fill))
\* scaling a scaled picture again (with another fill) is again a correct scaling of the intermediate picture
ChainAllowed == (~AlgoFails(S, tw, th) /\ tw <= MaxT \div 2 /\ th <= MaxT \div 2) =>
   LET mid == [dim |-> dim, w |-> tw, h |-> th, px |-> AlgoPicture(S, tw, th, Fill)]
   IN \A t2 \in {tw, tw + 1, 2 * tw, 2 * tw + 1} : IsScaled(mid, t2, 2 * th + 1, 4, AlgoPicture(mid, t2, 2 * th + 1, 4))
=============================================================================
