SPECIFICATION Spec
CONSTANT MaxLen = 5
INVARIANTS CodabarOK TwoOfFiveOK
CHECK_DEADLOCK FALSE
