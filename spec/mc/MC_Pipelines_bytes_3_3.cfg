SPECIFICATION Spec
CONSTANTS
  Kind = "bytes"
  Produced = 3
  Consumed = 3
  Points <- mcNone
  Content <- mcNone
INVARIANTS NoZeroFill InOrder
PROPERTIES CallReturns NoLeak
CHECK_DEADLOCK FALSE
