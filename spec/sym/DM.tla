---------------------------------- MODULE DM ----------------------------------
(***************************************************************************)
(* Reference reader for DataMatrix ECC 200 square symbols (ISO/IEC 16022), *)
(* properties C02, C12, C13.  px[y+1][x+1] = module at column x, row y.    *)
(* Sections: the 24 sizes, the Annex F placement algorithm as a state      *)
(* machine over (row, col, chr), finder/clock structure, Reed-Solomon      *)
(* blocks over GF(256)/301, the ASCII encodation automaton with 253-state  *)
(* pad un-randomising, minimal size.                                       *)
(***************************************************************************)
EXTENDS SymCommon, Bitwise

G == INSTANCE GF
F == G!F256A

\* <<symbol size, regions per side, data codewords, check codewords, blocks>>
Sizes == << <<10,1,3,5,1>>, <<12,1,5,7,1>>, <<14,1,8,10,1>>, <<16,1,12,12,1>>, <<18,1,18,14,1>>, <<20,1,22,18,1>>, <<22,1,30,20,1>>, <<24,1,36,24,1>>,
            <<26,1,44,28,1>>, <<32,2,62,36,1>>, <<36,2,86,42,1>>, <<40,2,114,48,1>>, <<44,2,144,56,1>>, <<48,2,174,68,1>>, <<52,2,204,84,2>>,
            <<64,4,280,112,2>>, <<72,4,368,144,4>>, <<80,4,456,192,4>>, <<88,4,576,224,4>>, <<96,4,696,272,4>>, <<104,4,816,336,6>>,
            <<120,6,1050,408,6>>, <<132,6,1304,496,8>>, <<144,6,1558,620,10>> >>
SizeIdx(n) == IF \E i \in 1..24 : Sizes[i][1] = n THEN CHOOSE i \in 1..24 : Sizes[i][1] = n ELSE 0
MapSide(i) == Sizes[i][1] - 2 * Sizes[i][2]           \* side of the mapping matrix

------------------------------------------------------------------------------
\* Annex F placement. arr[r+1][c+1] over the mapping matrix holds chr*10+bit (0 = unassigned); dup records an attempt
\* to assign a module twice. (Rows are separate tuples so that one assignment copies 2n instead of n*n cells.)
Module(st, n, r0, c0, ch, b) ==
  LET r1 == IF r0 < 0 THEN r0 + n ELSE r0
      c1 == IF r0 < 0 THEN c0 + 4 - ((n + 4) % 8) ELSE c0
      r == IF c1 < 0 THEN r1 + 4 - ((n + 4) % 8) ELSE r1
      c == IF c1 < 0 THEN c1 + n ELSE c1
  IN IF st.arr[r + 1][c + 1] # 0 THEN [st EXCEPT !.dup = TRUE] ELSE [st EXCEPT !.arr[r + 1][c + 1] = ch * 10 + b]

Shape(st, n, cells) == \* cells: eight <<r, c>>, bit 1..8; consumes one codeword
  [FoldLeft(LAMBDA s, i : Module(s, n, cells[i][1], cells[i][2], st.ch, i), st, Iota(8)) EXCEPT !.ch = st.ch + 1]

Utah(st, n, r, c) == Shape(st, n, << <<r-2, c-2>>, <<r-2, c-1>>, <<r-1, c-2>>, <<r-1, c-1>>, <<r-1, c>>, <<r, c-2>>, <<r, c-1>>, <<r, c>> >>)
Corner1(st, n) == Shape([st EXCEPT !.corners = Append(@, 1)], n, << <<n-1, 0>>, <<n-1, 1>>, <<n-1, 2>>, <<0, n-2>>, <<0, n-1>>, <<1, n-1>>, <<2, n-1>>, <<3, n-1>> >>)
Corner2(st, n) == Shape([st EXCEPT !.corners = Append(@, 2)], n, << <<n-3, 0>>, <<n-2, 0>>, <<n-1, 0>>, <<0, n-4>>, <<0, n-3>>, <<0, n-2>>, <<0, n-1>>, <<1, n-1>> >>)
Corner3(st, n) == Shape([st EXCEPT !.corners = Append(@, 3)], n, << <<n-3, 0>>, <<n-2, 0>>, <<n-1, 0>>, <<0, n-2>>, <<0, n-1>>, <<1, n-1>>, <<2, n-1>>, <<3, n-1>> >>)
Corner4(st, n) == Shape([st EXCEPT !.corners = Append(@, 4)], n, << <<n-1, 0>>, <<n-1, n-1>>, <<0, n-3>>, <<0, n-2>>, <<0, n-1>>, <<1, n-3>>, <<1, n-2>>, <<1, n-1>> >>)

Free(st, n, r, c) == st.arr[r + 1][c + 1] = 0

RECURSIVE UpRight(_, _)
UpRight(st, n) ==     \* sweep upward diagonally
  LET s1 == IF st.row < n /\ st.col >= 0 /\ Free(st, n, st.row, st.col) THEN Utah(st, n, st.row, st.col) ELSE st
      s2 == [s1 EXCEPT !.row = st.row - 2, !.col = st.col + 2]
  IN IF s2.row >= 0 /\ s2.col < n THEN UpRight(s2, n) ELSE s2
RECURSIVE DownLeft(_, _)
DownLeft(st, n) ==    \* sweep downward diagonally
  LET s1 == IF st.row >= 0 /\ st.col < n /\ Free(st, n, st.row, st.col) THEN Utah(st, n, st.row, st.col) ELSE st
      s2 == [s1 EXCEPT !.row = st.row + 2, !.col = st.col - 2]
  IN IF s2.row < n /\ s2.col >= 0 THEN DownLeft(s2, n) ELSE s2
RECURSIVE Sweep(_, _)
Sweep(st, n) ==
  LET a == IF st.row = n /\ st.col = 0 THEN Corner1(st, n) ELSE st
      b == IF a.row = n - 2 /\ a.col = 0 /\ n % 4 # 0 THEN Corner2(a, n) ELSE a
      c == IF b.row = n - 2 /\ b.col = 0 /\ n % 8 = 4 THEN Corner3(b, n) ELSE b
      d == IF c.row = n + 4 /\ c.col = 2 /\ n % 8 = 0 THEN Corner4(c, n) ELSE c
      u == UpRight(d, n)
      u2 == [u EXCEPT !.row = u.row + 1, !.col = u.col + 3]
      w == DownLeft(u2, n)
      w2 == [w EXCEPT !.row = w.row + 3, !.col = w.col + 1]
  IN IF w2.row < n \/ w2.col < n THEN Sweep(w2, n) ELSE w2

Place(n) == Sweep([arr |-> [r \in 1..n |-> [c \in 1..n |-> 0]], ch |-> 1, row |-> 4, col |-> 0, dup |-> FALSE, corners |-> <<>>], n)

\* placements of the 24 mapping-matrix sizes, computed once
Placements == [i \in 1..24 |-> Place(MapSide(i))]

------------------------------------------------------------------------------
\* ASCII encodation automaton over the data codewords: st = [out, shift, pad, ok]; pad = TRUE after the first 129
Unrandom(c, pos) == LET v == c - (((149 * pos) % 253) + 1) IN IF v < 1 THEN v + 254 ELSE v     \* pos = 1-based codeword position
AsciiStep(st, it) ==     \* it = <<codeword, position>>
  LET c == it[1] IN
  IF ~st.ok THEN st
  ELSE IF st.pad THEN (IF c \in 1..254 /\ Unrandom(c, it[2]) = 129 THEN st ELSE [st EXCEPT !.ok = FALSE])     \* (0 is not a codeword value)
  ELSE IF st.shift THEN [st EXCEPT !.out = Append(@, c - 1 + 128), !.shift = FALSE, !.ok = c \in 1..128]
  ELSE IF c = 129 THEN [st EXCEPT !.pad = TRUE]
  ELSE IF c \in 1..128 THEN [st EXCEPT !.out = Append(@, c - 1)]
  ELSE IF c \in 130..229 THEN [st EXCEPT !.out = @ \o <<48 + ((c - 130) \div 10), 48 + ((c - 130) % 10)>>]
  ELSE IF c = 235 THEN [st EXCEPT !.shift = TRUE]
  ELSE [st EXCEPT !.ok = FALSE]
Ascii(data) == FoldLeft(AsciiStep, [out |-> <<>>, shift |-> FALSE, pad |-> FALSE, ok |-> TRUE], [i \in 1..Len(data) |-> <<data[i], i>>])

\* length of the ASCII encodation with digit pairs taken greedily from the left (optimal for this scheme)
RECURSIVE EncLen(_, _)
EncLen(bytes, i) == IF i > Len(bytes) THEN 0
                    ELSE IF IsDigit(bytes[i]) /\ i < Len(bytes) /\ IsDigit(bytes[i + 1]) THEN 1 + EncLen(bytes, i + 2)
                    ELSE IF bytes[i] > 127 THEN 2 + EncLen(bytes, i + 1) ELSE 1 + EncLen(bytes, i + 1)
\* iterative form for long contents: state <<count, pendingDigit>>
EncLenIt(bytes) == LET r == FoldLeft(LAMBDA st, b : IF st[2] /\ IsDigit(b) THEN <<st[1], FALSE>>           \* second digit of a pair: no new codeword
                                                  ELSE <<st[1] + (IF b > 127 THEN 2 ELSE 1), IsDigit(b)>>, <<0, FALSE>>, bytes)
                   IN r[1]
MinSizeIdx(bytes) == LET m == EncLenIt(bytes) IN IF m <= 1558 THEN CHOOSE i \in 1..24 : Sizes[i][3] >= m /\ \A j \in 1..(i - 1) : Sizes[j][3] < m ELSE 0
Representable(bytes) == EncLenIt(bytes) <= 1558

------------------------------------------------------------------------------
DFail(w) == [ok |-> FALSE, why |-> w]
M(px, x, y) == px[y + 1][x + 1]

Read(px) ==
  LET n == Len(px)
      si == SizeIdx(n)
  IN IF si = 0 \/ \E y \in 1..n : Len(px[y]) # n THEN DFail("size")
     ELSE IF \E y \in 1..n : \E x \in 1..n : px[y][x] \notin {0, 1} THEN DFail("colours")
     ELSE
     LET reg == Sizes[si][2]
         ndata == Sizes[si][3]
         necc == Sizes[si][4]
         nblk == Sizes[si][5]
         rs == (n \div reg) - 2
         N == rs * reg
         finderOK == \A ry \in 0..(reg - 1), rx \in 0..(reg - 1) : \A i \in 0..(rs + 1) :
                        LET x0 == rx * (rs + 2)
                            y0 == ry * (rs + 2)
                        IN /\ M(px, x0, y0 + i) = 1 /\ M(px, x0 + i, y0 + rs + 1) = 1                   \* solid L: left column, bottom row
                           /\ M(px, x0 + i, y0) = 1 - (i % 2) /\ M(px, x0 + rs + 1, y0 + i) = i % 2     \* clock track: top row, right column
         mat(r, c) == M(px, (c \div rs) * (rs + 2) + 1 + (c % rs), (r \div rs) * (rs + 2) + 1 + (r % rs))
         pl == Placements[si]
     IN IF ~finderOK THEN DFail("finder")
        ELSE IF pl.dup \/ pl.ch - 1 # ndata + necc THEN DFail("placement")
        ELSE
        LET cwv == FoldLeft(LAMBDA acc, k : LET a == pl.arr[((k - 1) \div N) + 1][((k - 1) % N) + 1] IN
                                            IF a = 0 \/ mat((k - 1) \div N, (k - 1) % N) = 0 THEN acc
                                            ELSE [acc EXCEPT ![a \div 10] = @ + 2 ^ (8 - (a % 10))],
                             [i \in 1..(ndata + necc) |-> 0], Iota(N * N))
            fixedNeeded == pl.arr[N][N] = 0
            fixedOK == mat(N - 1, N - 1) = 1 /\ mat(N - 2, N - 2) = 1 /\ mat(N - 1, N - 2) = 0 /\ mat(N - 2, N - 1) = 0
            e == necc \div nblk
            blk(b) == LET dl == (ndata - b + nblk - 1) \div nblk     \* data codewords b, b+nblk, ... (b zero based)
                      IN [i \in 1..(dl + e) |-> IF i <= dl THEN cwv[b + (i - 1) * nblk + 1] ELSE cwv[ndata + b + (i - dl - 1) * nblk + 1]]
        IN IF Len(cwv) # ndata + necc THEN DFail("internal")     \* (also forces cwv to be computed once, here)
           ELSE IF fixedNeeded /\ ~fixedOK THEN DFail("fixed-pattern")
           ELSE IF \E r \in 1..N, c \in 1..N : pl.arr[r][c] = 0 /\ ~(fixedNeeded /\ r >= N - 1 /\ c >= N - 1) THEN DFail("placement")
           ELSE IF \E b \in 0..(nblk - 1) : \E s \in 1..e : G!PEval(F, blk(b), G!Alpha(F, s)) # 0 THEN DFail("reed-solomon")
           ELSE LET a == Ascii(SubSeq(cwv, 1, ndata))
                IN IF ~a.ok \/ a.shift THEN DFail("encodation")
                   ELSE [ok |-> TRUE, why |-> "", sizeidx |-> si, out |-> a.out, ndata |-> ndata, necc |-> necc, nblk |-> nblk,
                         corners |-> pl.corners, fixed |-> fixedNeeded, padded |-> a.pad]
=============================================================================
