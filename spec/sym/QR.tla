---------------------------------- MODULE QR ----------------------------------
(***************************************************************************)
(* Reference reader for QR Code symbols (ISO/IEC 18004), properties C01,   *)
(* C12, C13.  px[y+1][x+1] is the module at column x, row y (1 = dark).    *)
(* Sections: geometry (function modules, placement walk), format/version   *)
(* words (BCH, computed), codewords and Reed-Solomon blocks, the segment   *)
(* bit-stream automaton, capacity.                                         *)
(***************************************************************************)
EXTENDS SymCommon, TablesQR, Bitwise

G == INSTANCE GF
F256 == G!F256Q

Dim(v) == 17 + 4 * v
M(px, x, y) == px[y + 1][x + 1]

------------------------------------------------------------------------------
\* Geometry
AlignC(v) == QRAlign[v]
LastC(v) == Dim(v) - 7
Band(v) == UNION {{c - 2, c - 1, c, c + 1, c + 2} : c \in {AlignC(v)[i] : i \in 1..Len(AlignC(v))}}
Near6(a) == a \in 4..8
NearLast(v, a) == a \in (LastC(v) - 2)..(LastC(v) + 2)
\* alignment patterns: all pairs of centres except the three that would overlap a finder pattern
InAlign(v, band, x, y) == /\ v >= 2 /\ x \in band /\ y \in band
                          /\ ~(Near6(x) /\ Near6(y)) /\ ~(Near6(x) /\ NearLast(v, y)) /\ ~(NearLast(v, x) /\ Near6(y))
IsFn(v, band, x, y) ==
  LET d == Dim(v) IN
  \/ (x < 9 /\ y < 9) \/ (x >= d - 8 /\ y < 9) \/ (x < 9 /\ y >= d - 8)       \* finders, separators, format, dark module
  \/ x = 6 \/ y = 6                                                          \* timing
  \/ InAlign(v, band, x, y)
  \/ (v >= 7 /\ ((x >= d - 11 /\ x < d - 8 /\ y < 6) \/ (y >= d - 11 /\ y < d - 8 /\ x < 6)))   \* version information

\* placement walk, closed form: the i-th (0-based) module position visited, function modules included
Pos(v, i) == LET d == Dim(v)
                 pair == i \div (2 * d)
                 r == i % (2 * d)
                 xr == d - 1 - 2 * pair
                 x0 == IF xr <= 6 THEN xr - 1 ELSE xr          \* the timing column is skipped
                 yy == r \div 2
                 y == IF pair % 2 = 0 THEN d - 1 - yy ELSE yy
             IN <<x0 - (r % 2), y>>
Order(v) == LET d == Dim(v)
                band == Band(v)
            IN SelectSeq([i \in 1..(d * (d - 1)) |-> Pos(v, i - 1)], LAMBDA p : ~IsFn(v, band, p[1], p[2]))

\* number of data modules by the formula of the standard's capacity table
RawModules(v) == LET na == (v \div 7) + 2
                 IN (16 * v + 128) * v + 64 - (IF v >= 2 THEN (25 * na - 10) * na - 55 ELSE 0) - (IF v >= 7 THEN 36 ELSE 0)
TotalCW(v) == RawModules(v) \div 8

Mask(k, x, y) == CASE k = 0 -> (x + y) % 2 = 0
                   [] k = 1 -> y % 2 = 0
                   [] k = 2 -> x % 3 = 0
                   [] k = 3 -> (x + y) % 3 = 0
                   [] k = 4 -> ((y \div 2) + (x \div 3)) % 2 = 0
                   [] k = 5 -> ((x * y) % 2) + ((x * y) % 3) = 0
                   [] k = 6 -> (((x * y) % 2) + ((x * y) % 3)) % 2 = 0
                   [] k = 7 -> (((x + y) % 2) + ((x * y) % 3)) % 2 = 0

------------------------------------------------------------------------------
\* Format and version words: BCH codes computed by polynomial division over GF(2)
Shl(a, n) == a * (2 ^ n)
BitOf(a, i) == (a \div (2 ^ i)) % 2
BCHRem(val, gen, top, deg) ==      \* remainder of val (bits top..0) by gen of degree deg
  FoldLeft(LAMBDA r, i : IF BitOf(r, i) = 1 THEN r ^^ Shl(gen, i - deg) ELSE r, val, [k \in 1..(top - deg + 1) |-> top - k + 1])
LevelBits(level) == <<1, 0, 3, 2>>[level + 1]          \* L = 01, M = 00, Q = 11, H = 10
FmtWord(level, mask) == LET data == LevelBits(level) * 8 + mask
                        IN (Shl(data, 10) + BCHRem(Shl(data, 10), 1335, 14, 10)) ^^ 21522     \* 0x537, 0x5412
VerWord(v) == Shl(v, 12) + BCHRem(Shl(v, 12), 7973, 17, 12)                                   \* 0x1F25

\* positions of format bit i (0 = least significant) in the two copies
Fmt1Pos(i) == <<<<8, 0>>, <<8, 1>>, <<8, 2>>, <<8, 3>>, <<8, 4>>, <<8, 5>>, <<8, 7>>, <<8, 8>>, <<7, 8>>, <<5, 8>>, <<4, 8>>, <<3, 8>>, <<2, 8>>, <<1, 8>>, <<0, 8>>>>[i + 1]
Fmt2Pos(v, i) == IF i < 8 THEN <<Dim(v) - 1 - i, 8>> ELSE <<8, Dim(v) - 15 + i>>
ReadWord(px, n, pos(_)) == Sum([k \in 1..n |-> Shl(M(px, pos(k - 1)[1], pos(k - 1)[2]), k - 1)])

------------------------------------------------------------------------------
\* Structure of the function patterns; returns "" or the name of the first violated rule
FinderOK(px, v) ==
  \A o \in {<<0, 0>>, <<Dim(v) - 7, 0>>, <<0, Dim(v) - 7>>} : \A x \in -1..7, y \in -1..7 :
     LET X == o[1] + x
         Y == o[2] + y
     IN (X >= 0 /\ X < Dim(v) /\ Y >= 0 /\ Y < Dim(v)) =>
          M(px, X, Y) = (IF x \in 0..6 /\ y \in 0..6 /\ (x \in {0, 6} \/ y \in {0, 6} \/ (x \in 2..4 /\ y \in 2..4)) THEN 1 ELSE 0)
TimingOK(px, v) == \A i \in 8..(Dim(v) - 9) : M(px, i, 6) = 1 - (i % 2) /\ M(px, 6, i) = 1 - (i % 2)
AlignOK(px, v) ==
  \A i, j \in 1..Len(AlignC(v)) :
     LET cx == AlignC(v)[i]
         cy == AlignC(v)[j]
     IN ((cx = 6 /\ cy = 6) \/ (cx = 6 /\ cy = LastC(v)) \/ (cx = LastC(v) /\ cy = 6)) \/
        \A dx \in -2..2, dy \in -2..2 :
           M(px, cx + dx, cy + dy) = (IF (dx \in {-1, 1} /\ dy \in -1..1) \/ (dy \in {-1, 1} /\ dx \in -1..1) THEN 0 ELSE 1)
VersionOK(px, v) == v < 7 \/ \A i \in 0..17 : LET b == BitOf(VerWord(v), i) IN
                      M(px, Dim(v) - 11 + (i % 3), i \div 3) = b /\ M(px, i \div 3, Dim(v) - 11 + (i % 3)) = b

------------------------------------------------------------------------------
\* Segment bit stream
AlnumChars == <<48,49,50,51,52,53,54,55,56,57,65,66,67,68,69,70,71,72,73,74,75,76,77,78,79,80,81,82,83,84,85,86,87,88,89,90,32,36,37,42,43,45,46,47,58>>
Take(bits, pos, n) == FoldLeft(LAMBDA a, i : 2 * a + bits[pos + i], 0, [i \in 1..n |-> i])
CountBits(v, md) == LET c == IF v < 10 THEN 1 ELSE IF v < 27 THEN 2 ELSE 3
                    IN CASE md = 1 -> <<10, 12, 14>>[c] [] md = 2 -> <<9, 11, 13>>[c] [] md = 4 -> <<8, 16, 16>>[c]
Pow10(k) == <<1, 10, 100>>[k + 1]

\* one segment starting after its mode indicator; returns [ok, out, end]
Segment(bits, v, md, pos) ==
  LET cb == CountBits(v, md)
  IN IF pos + cb > Len(bits) THEN [ok |-> FALSE, out |-> <<>>, end |-> pos]
     ELSE
     LET n == Take(bits, pos, cb)
         p0 == pos + cb
     IN CASE md = 1 ->
               LET full == n \div 3
                   rem == n % 3
                   len == 10 * full + <<0, 4, 7>>[rem + 1]
                   grp(g) == IF g < full THEN Take(bits, p0 + 10 * g, 10) ELSE Take(bits, p0 + 10 * full, <<0, 4, 7>>[rem + 1])
                   gsz(g) == IF g < full THEN 3 ELSE rem
               IN IF p0 + len > Len(bits) THEN [ok |-> FALSE, out |-> <<>>, end |-> pos]
                  ELSE IF \E g \in 0..(full - 1) : grp(g) >= 1000 THEN [ok |-> FALSE, out |-> <<>>, end |-> pos]
                  ELSE IF rem > 0 /\ grp(full) >= (IF rem = 1 THEN 10 ELSE 100)
                       THEN [ok |-> FALSE, out |-> <<>>, end |-> pos]
                  ELSE [ok |-> TRUE, end |-> p0 + len,
                        out |-> [j \in 1..n |-> LET g == (j - 1) \div 3
                                                   k == (j - 1) % 3
                                               IN 48 + ((grp(g) \div Pow10(gsz(g) - 1 - k)) % 10)]]
          [] md = 2 ->
               LET full == n \div 2
                   rem == n % 2
                   len == 11 * full + 6 * rem
                   grp(g) == IF g < full THEN Take(bits, p0 + 11 * g, 11) ELSE Take(bits, p0 + 11 * full, 6)
               IN IF p0 + len > Len(bits) THEN [ok |-> FALSE, out |-> <<>>, end |-> pos]
                  ELSE IF (\E g \in 0..(full - 1) : grp(g) >= 2025) \/ (rem = 1 /\ grp(full) >= 45) THEN [ok |-> FALSE, out |-> <<>>, end |-> pos]
                  ELSE [ok |-> TRUE, end |-> p0 + len,
                        out |-> [j \in 1..n |-> LET g == (j - 1) \div 2
                                               IN IF g < full THEN AlnumChars[(IF (j - 1) % 2 = 0 THEN grp(g) \div 45 ELSE grp(g) % 45) + 1]
                                                  ELSE AlnumChars[grp(g) + 1]]]
          [] md = 4 ->
               IF p0 + 8 * n > Len(bits) THEN [ok |-> FALSE, out |-> <<>>, end |-> pos]
               ELSE [ok |-> TRUE, end |-> p0 + 8 * n, out |-> [j \in 1..n |-> Take(bits, p0 + 8 * (j - 1), 8)]]

\* after the terminator: zeros to the byte boundary, then 0xEC / 0x11 alternating to the end
PadOK(bits, pos) ==
  LET al == (8 - (pos % 8)) % 8
      start == pos + al
  IN /\ start <= Len(bits)
     /\ \A i \in (pos + 1)..start : bits[i] = 0
     /\ (Len(bits) - start) % 8 = 0
     /\ \A k \in 0..(((Len(bits) - start) \div 8) - 1) : Take(bits, start + 8 * k, 8) = (IF k % 2 = 0 THEN 236 ELSE 17)

RECURSIVE Parse(_, _, _, _, _)
Parse(bits, v, pos, out, modes) ==
  IF Len(bits) - pos < 4
  THEN (IF \A i \in (pos + 1)..Len(bits) : bits[i] = 0 THEN [ok |-> TRUE, why |-> "", out |-> out, modes |-> modes]
        ELSE [ok |-> FALSE, why |-> "terminator", out |-> out, modes |-> modes])
  ELSE LET md == Take(bits, pos, 4)
       IN IF md = 0 THEN (IF PadOK(bits, pos + 4) THEN [ok |-> TRUE, why |-> "", out |-> out, modes |-> modes]
                          ELSE [ok |-> FALSE, why |-> "pad", out |-> out, modes |-> modes])
          ELSE IF md \notin {1, 2, 4} THEN [ok |-> FALSE, why |-> "mode", out |-> out, modes |-> modes]
          ELSE LET s == Segment(bits, v, md, pos + 4)
               IN IF ~s.ok THEN [ok |-> FALSE, why |-> "segment", out |-> out, modes |-> modes]
                  ELSE Parse(bits, v, s.end, out \o s.out, Append(modes, md))

------------------------------------------------------------------------------
\* The reader
QFail(w) == [ok |-> FALSE, why |-> w]

Read(px) ==
  LET d == Len(px)
      v == (d - 17) \div 4
  IN IF d < 21 \/ (d - 17) % 4 # 0 \/ v > 40 \/ \E y \in 1..d : Len(px[y]) # d THEN QFail("size")
     ELSE IF \E y \in 1..d : \E x \in 1..d : px[y][x] \notin {0, 1} THEN QFail("colours")
     ELSE IF ~FinderOK(px, v) THEN QFail("finder")
     ELSE IF ~TimingOK(px, v) THEN QFail("timing")
     ELSE IF ~AlignOK(px, v) THEN QFail("alignment")
     ELSE IF M(px, 8, d - 8) # 1 THEN QFail("dark-module")
     ELSE IF ~VersionOK(px, v) THEN QFail("version-info")
     ELSE
     LET w1 == ReadWord(px, 15, Fmt1Pos)
         w2 == ReadWord(px, 15, LAMBDA i : Fmt2Pos(v, i))
         cands == {lm \in (0..3) \X (0..7) : FmtWord(lm[1], lm[2]) = w1}
     IN IF w1 # w2 \/ cands = {} THEN QFail("format-info")
        ELSE
        LET lm == CHOOSE c \in cands : TRUE
            level == lm[1]
            mask == lm[2]
            order == Order(v)
            nmod == Len(order)
            \* (SubSeq materialises the lazily evaluated function as a tuple: indexing and Len are then O(1))
            bits == SubSeq([i \in 1..nmod |-> LET p == order[i] IN IF Mask(mask, p[1], p[2]) THEN 1 - M(px, p[1], p[2]) ELSE M(px, p[1], p[2])], 1, nmod)
            n == nmod \div 8
            cw == SubSeq([k \in 1..n |-> Take(bits, 8 * (k - 1), 8)], 1, n)
            nb == QRNumBlocks[level + 1][v]
            ec == QRECPerBlock[level + 1][v]
            short == nb - (n % nb)
            slen == (n \div nb) - ec
            ndata == n - nb * ec
            dlen(b) == slen + (IF b >= short THEN 1 ELSE 0)                    \* b zero based
            dcw(b, i) == IF i < slen THEN cw[i * nb + b + 1] ELSE cw[slen * nb + (b - short) + 1]
            block(b) == [i \in 1..(dlen(b) + ec) |-> IF i <= dlen(b) THEN dcw(b, i - 1) ELSE cw[ndata + (i - dlen(b) - 1) * nb + b + 1]]
            datacw == FoldLeft(LAMBDA acc, b : acc \o [i \in 1..dlen(b) |-> dcw(b, i - 1)], <<>>, [b \in 1..nb |-> b - 1])
            dbits == FoldLeft(LAMBDA acc, c : acc \o [i \in 1..8 |-> BitOf(c, 8 - i)], <<>>, datacw)
        IN IF nmod # RawModules(v) THEN QFail("module-count")
           ELSE IF \E i \in (8 * n + 1)..nmod : bits[i] # 0 THEN QFail("remainder-bits")
           ELSE IF \E b \in 0..(nb - 1) : \E s \in 0..(ec - 1) : G!PEval(F256, block(b), G!Alpha(F256, s)) # 0 THEN QFail("reed-solomon")
           ELSE LET p == Parse(dbits, v, 0, <<>>, <<>>)
                IN IF ~p.ok THEN QFail("stream-" \o p.why)
                   ELSE [ok |-> TRUE, why |-> "", version |-> v, level |-> level, mask |-> mask, out |-> p.out, modes |-> p.modes,
                         nblocks |-> nb, ecper |-> ec]

------------------------------------------------------------------------------
\* Capacity (C10, C13): level 0..3 = L..H, mode 1 numeric, 2 alphanumeric, 4 byte
DataCW(v, level) == TotalCW(v) - QRNumBlocks[level + 1][v] * QRECPerBlock[level + 1][v]
PayloadBits(md, n) == CASE md = 1 -> 10 * (n \div 3) + <<0, 4, 7>>[(n % 3) + 1]
                        [] md = 2 -> 11 * (n \div 2) + 6 * (n % 2)
                        [] md = 4 -> 8 * n
Fits(v, level, md, n) == 4 + CountBits(v, md) + PayloadBits(md, n) <= 8 * DataCW(v, level)
MinVersion(level, md, n) == IF \E v \in 1..40 : Fits(v, level, md, n) THEN CHOOSE v \in 1..40 : Fits(v, level, md, n) /\ \A u \in 1..(v - 1) : ~Fits(u, level, md, n)
                            ELSE 0
AllDigits(bytes) == \A i \in 1..Len(bytes) : IsDigit(bytes[i])
AlnumSet == {AlnumChars[i] : i \in 1..45}
AllAlnum(bytes) == \A i \in 1..Len(bytes) : bytes[i] \in AlnumSet
\* the densest single mode that can express the content
DensestMode(bytes) == IF AllDigits(bytes) THEN 1 ELSE IF AllAlnum(bytes) THEN 2 ELSE 4
\* API mode 0 Auto, 1 Numeric, 2 AlphaNumeric, 3 Unicode
ModeFor(apimode, bytes) == CASE apimode = 0 -> DensestMode(bytes) [] apimode = 1 -> 1 [] apimode = 2 -> 2 [] apimode = 3 -> 4
Expressible(md, bytes) == CASE md = 1 -> AllDigits(bytes) [] md = 2 -> AllAlnum(bytes) [] md = 4 -> TRUE
Representable(bytes, level, apimode) ==
  LET md == ModeFor(apimode, bytes) IN Expressible(md, bytes) /\ MinVersion(level, md, Len(bytes)) > 0
=============================================================================
