-------------------------------- MODULE AztecSel --------------------------------
(***************************************************************************)
(* Encoder model: transcription of aztec.stuffBits and of the symbol-size  *)
(* selection in aztec.EncodeWithColor (explicit layer request; automatic:  *)
(* compact 1..4, then full-range 4..32, first size whose capacity holds    *)
(* the raw bits plus check bits, whose 64-data-word limit (compact) is not *)
(* exceeded by the STUFFED stream and whose usable bits hold the stuffed   *)
(* stream plus check bits; the stream is re-stuffed whenever the codeword  *)
(* size of the candidate changes).                                         *)
(* MC_AztecSel checks the DESIGN on abstract streams (length + stuffing    *)
(* growth): the chosen size carries the requested percentage (C12), no     *)
(* smaller size would be accepted on explicit request (C13), a request is  *)
(* refused only when the stream does not fit (C10).  TraceEnc compares the *)
(* real encoder's choice with Select for recorded high-level bit streams.  *)
(***************************************************************************)
EXTENDS Aztec

CONSTANT ExactFitOK   \* TRUE: as implemented (a stream that fills a size exactly is accepted by the automatic search, as it is on explicit request).
                      \* FALSE: the negative design in which the automatic search skips exact fits - MC_AztecSel must then find a payload for
                      \* which a smaller size is accepted on explicit request (non-vacuity of the minimality invariant).

\* one stuffing step on position i (zero based) of a stream of n bits given by bit(_): <<emitted word, bits consumed>>
StuffStep(bit(_), n, i, w) ==
  LET word == FoldLeft(LAMBDA a, j : 2 * a + (IF i + j - 1 >= n THEN 1 ELSE bit(i + j)), 0, [j \in 1..w |-> j])     \* bit(k): k one based
      hi == word \div 2                                                                                           \* the w-1 leading bits
  IN IF hi = 2 ^ (w - 1) - 1 THEN <<2 * hi, w - 1>>
     ELSE IF hi = 0 THEN <<1, w - 1>>
     ELSE <<word, w>>
\* stuffBits: the sequence of codewords (a stream of zero bits becomes one all-ones-but-last word)
StuffWords(bits, w) ==
  LET n == Len(bits)
      r == FoldLeft(LAMBDA st, k : IF st[1] >= n THEN st
                                   ELSE LET s == StuffStep(LAMBDA q : bits[q], n, st[1], w) IN <<st[1] + s[2], Append(st[2], s[1])>>,
                    <<0, <<>>>>, Iota((n \div (w - 1)) + 2))
  IN IF r[2] = <<>> THEN <<2 ^ w - 2>> ELSE r[2]
StuffedLen(bits, w) == w * Len(StuffWords(bits, w))

Refuse == [ok |-> FALSE, compact |-> FALSE, layers |-> 0]
\* stuffed(w) = stuffed length for codeword size w; nbits = raw length
SelectFrom(nbits, stuffed(_), pct, req) ==
  LET ecc == EccBits(nbits, pct)
      total == nbits + ecc
      fitsExplicit(L, compact) ==
        LET w == WordSize(L)
            tot == TotalBits(L, compact)
        IN stuffed(w) + ecc <= tot - (tot % w) /\ ~(compact /\ stuffed(w) > 64 * w)
      cand(i) == [compact |-> i <= 3, L |-> IF i <= 3 THEN i + 1 ELSE i]
      fitsAuto(i) == LET c == cand(i)
                         w == WordSize(c.L)
                         tot == TotalBits(c.L, c.compact)
                     IN total <= tot /\ fitsExplicit(c.L, c.compact) /\ (ExactFitOK \/ stuffed(w) + ecc < tot - (tot % w))
  IN IF req # 0
     THEN LET compact == req < 0
              L == Abs(req)
          IN IF (compact /\ L > 4) \/ (~compact /\ L > 32) \/ ~fitsExplicit(L, compact) THEN Refuse
             ELSE [ok |-> TRUE, compact |-> compact, layers |-> L]
     ELSE IF \E i \in 0..32 : fitsAuto(i)
          THEN LET i == CHOOSE k \in 0..32 : fitsAuto(k) /\ \A j \in 0..(k - 1) : ~fitsAuto(j)
               IN [ok |-> TRUE, compact |-> cand(i).compact, layers |-> cand(i).L]
          ELSE Refuse
Select(bits, pct, req) ==
  LET s6 == StuffedLen(bits, 6)
      s8 == StuffedLen(bits, 8)
      s10 == StuffedLen(bits, 10)
      s12 == StuffedLen(bits, 12)
  IN SelectFrom(Len(bits), LAMBDA w : CASE w = 6 -> s6 [] w = 8 -> s8 [] w = 10 -> s10 [] w = 12 -> s12, pct, req)
=============================================================================
