----------------------------- MODULE SymCommon -----------------------------
(* Helpers shared by the symbology reader modules. Modules are sequences of 0 (space) / 1 (bar). *)
EXTENDS Integers, Sequences, SequencesExt, FiniteSets

Iota(n) == [i \in 1..n |-> i]
Num(bits) == FoldLeft(LAMBDA a, b : 2 * a + b, 0, bits)
Sum(s) == FoldLeft(LAMBDA a, b : a + b, 0, s)
Rep(v, n) == [i \in 1..n |-> v]

\* modules of a pattern given as alternating bar/space widths, starting with a bar
Expand(widths) == FoldLeft(LAMBDA acc, i : acc \o Rep(i % 2, widths[i]), <<>>, Iota(Len(widths)))

\* modules of a pattern given as elements (1 = wide drawn with `wide` modules, 0 = narrow = 1 module), starting with a bar
ExpandElems(elems, wide) == Expand([i \in 1..Len(elems) |-> IF elems[i] = 1 THEN wide ELSE 1])

\* run lengths: << <<colour, n>>, ... >>
Runs(m) == FoldLeft(LAMBDA acc, b : IF acc # <<>> /\ acc[Len(acc)][1] = b
                                     THEN [acc EXCEPT ![Len(acc)] = <<b, @[2] + 1>>]
                                     ELSE Append(acc, <<b, 1>>), <<>>, m)

\* table inversion: f[n] = position-1 of the (unique) entry equal to n, or -1
Invert(nums, size) == FoldLeft(LAMBDA f, i : [f EXCEPT ![nums[i]] = i - 1], [n \in 0..(size - 1) |-> -1], Iota(Len(nums)))

Distinct(s) == \A i, j \in 1..Len(s) : i # j => s[i] # s[j]
IndexOf(s, v) == IF \E i \in 1..Len(s) : s[i] = v THEN (CHOOSE i \in 1..Len(s) : s[i] = v) - 1 ELSE -1

Slice(m, from, n) == [i \in 1..n |-> m[from + i - 1]]

IsDigit(b) == b \in 48..57
Fail(w) == [ok |-> FALSE, why |-> w, runes |-> <<>>, cs |-> -1]
=============================================================================
