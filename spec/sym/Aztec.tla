--------------------------------- MODULE Aztec ---------------------------------
(***************************************************************************)
(* Reference reader for Aztec Code symbols (ISO/IEC 24778), properties     *)
(* C03, C12, C13.  px[y+1][x+1] = module at column x, row y (1 = dark).    *)
(* Sections: geometry (bullseye, orientation marks, mode message, the      *)
(* reference grid, the layer spiral), Reed-Solomon over GF(16)/(64)/(256)/ *)
(* (1024)/(4096), un-stuffing, and the high-level decoding automaton with  *)
(* modes Upper/Lower/Mixed/Punct/Digit, latches, shifts and binary shift.  *)
(***************************************************************************)
EXTENDS SymCommon, Bitwise

G == INSTANCE GF
FieldFor(w) == CASE w = 4 -> G!F16 [] w = 6 -> G!F64 [] w = 8 -> G!F256A [] w = 10 -> G!F1024 [] w = 12 -> G!F4096

M(px, x, y) == px[y + 1][x + 1]
Abs(a) == IF a < 0 THEN -a ELSE a
Max2(a, b) == IF a > b THEN a ELSE b

WordSize(layers) == IF layers <= 2 THEN 6 ELSE IF layers <= 8 THEN 8 ELSE IF layers <= 22 THEN 10 ELSE 12
TotalBits(layers, compact) == ((IF compact THEN 88 ELSE 112) + 16 * layers) * layers
BaseSize(layers, compact) == (IF compact THEN 11 ELSE 14) + 4 * layers
\* full-range symbols insert a reference-grid line through the centre and every 16 modules from it
FullSize(layers) == LET b == BaseSize(layers, FALSE) IN b + 1 + 2 * (((b \div 2) - 1) \div 15)
SymbolSize(layers, compact) == IF compact THEN BaseSize(layers, TRUE) ELSE FullSize(layers)

RSValid(F, cw, necc) == \A k \in 1..necc : G!PEval(F, cw, G!Alpha(F, k)) = 0

------------------------------------------------------------------------------
\* Geometry independent of a particular image: reference-grid lines, the map from data coordinates to matrix coordinates,
\* and the module coordinates of the layer spiral in reading order.
GridLines(n, compact) == IF compact THEN {} ELSE LET c == n \div 2 IN {c + 16 * t : t \in -((c \div 16))..(c \div 16)} \cap (0..(n - 1))
AMap(n, compact) == SelectSeq([i \in 1..n |-> i - 1], LAMBDA i : i \notin GridLines(n, compact))
SideCoords(layers, compact, amap, i, q) ==      \* layer i (0 = outermost), side q = 0..3: left, bottom, right, top of the spiral read from its outer end
  LET rowSize == (layers - i) * 4 + (IF compact THEN 9 ELSE 12)
      low == 2 * i
      high == BaseSize(layers, compact) - 1 - 2 * i
  IN [t \in 1..(2 * rowSize) |->
        LET j == (t - 1) \div 2
            k == (t - 1) % 2
        IN CASE q = 0 -> <<amap[low + k + 1], amap[low + j + 1]>>
             [] q = 1 -> <<amap[low + j + 1], amap[high - k + 1]>>
             [] q = 2 -> <<amap[high - k + 1], amap[high - j + 1]>>
             [] q = 3 -> <<amap[high - j + 1], amap[low + k + 1]>>]
Spiral(layers, compact) ==
  LET amap == AMap(SymbolSize(layers, compact), compact)
  IN FoldLeft(LAMBDA acc, iq : acc \o SideCoords(layers, compact, amap, iq \div 4, iq % 4), <<>>, [t \in 1..(4 * layers) |-> t - 1])

\* High-level decoding automaton. Table entries: >= 0 a byte, -1 P/S, -2 B/S, -3 FLG, -10-k latch, -20-k shift, -30-k two-byte punctuation
\* (modes: 1 Upper, 2 Lower, 3 Mixed, 4 Punct, 5 Digit)
UpperT == <<-1, 32>> \o [i \in 1..26 |-> 64 + i] \o <<-12, -13, -15, -2>>
LowerT == <<-1, 32>> \o [i \in 1..26 |-> 96 + i] \o <<-21, -13, -15, -2>>
MixedT == <<-1, 32>> \o [i \in 1..13 |-> i] \o <<27, 28, 29, 30, 31, 64, 92, 94, 95, 96, 124, 126, 127, -12, -11, -14, -2>>
PunctT == <<-3, 13, -31, -32, -33, -34, 33, 34, 35, 36, 37, 38, 39, 40, 41, 42, 43, 44, 45, 46, 47, 58, 59, 60, 61, 62, 63, 91, 93, 123, 125, -11>>
DigitT == <<-1, 32>> \o [i \in 1..10 |-> 47 + i] \o <<44, 46, -11, -21>>
TableOf(mode) == <<UpperT, LowerT, MixedT, PunctT, DigitT>>[mode]
PairBytes(k) == << <<13, 10>>, <<46, 32>>, <<44, 32>>, <<58, 32>> >>[k]

TakeBits(bits, pos, n) == FoldLeft(LAMBDA a, i : 2 * a + bits[pos + i], 0, [i \in 1..n |-> i])

\* One step of the automaton. st = [pos, mode, shift (0 = none), out, done, ok, why]; a step consumes one code
\* (a whole binary-shift run in one step). Written as a fold over a bound on the number of codes, not as recursion.
HLStep(bits, ws, st) ==
  IF st.done THEN st
  ELSE
  LET pos == st.pos
      cur == IF st.shift # 0 THEN st.shift ELSE st.mode
      w == IF cur = 5 THEN 4 ELSE 5
      n == Len(bits)
      stop == [st EXCEPT !.done = TRUE]
      fail(why) == [st EXCEPT !.done = TRUE, !.ok = FALSE, !.why = why]
  IN IF n - pos < w THEN stop
     ELSE
     LET v == TakeBits(bits, pos, w)
         t == TableOf(cur)[v + 1]
     IN IF t >= 0 THEN [st EXCEPT !.pos = pos + w, !.shift = 0, !.out = Append(@, t)]
        ELSE IF t <= -31 THEN [st EXCEPT !.pos = pos + w, !.shift = 0, !.out = @ \o PairBytes(-t - 30)]
        ELSE IF t = -3 THEN fail("flg")
        ELSE IF t = -1 THEN (IF st.shift # 0 THEN fail("shift-after-shift") ELSE [st EXCEPT !.pos = pos + w, !.shift = 4])
        ELSE IF t <= -21 THEN (IF st.shift # 0 THEN fail("shift-after-shift") ELSE [st EXCEPT !.pos = pos + w, !.shift = -t - 20])
        ELSE IF t <= -11 THEN (IF st.shift # 0 THEN fail("latch-after-shift") ELSE [st EXCEPT !.pos = pos + w, !.mode = -t - 10])
        ELSE \* binary shift
             IF (n - pos < ws) /\ (\A i \in (pos + 1)..n : bits[i] = 1) THEN stop            \* stuffing pad
             ELSE IF n - (pos + w) < 5 THEN stop
             ELSE LET l5 == TakeBits(bits, pos + w, 5)
                      ext == l5 = 0
                  IN IF ext /\ n - (pos + w + 5) < 11 THEN stop
                     ELSE LET cnt == IF ext THEN TakeBits(bits, pos + w + 5, 11) + 31 ELSE l5
                              p0 == pos + w + 5 + (IF ext THEN 11 ELSE 0)
                          IN IF p0 + 8 * cnt > n THEN fail("binary-overrun")
                             ELSE [st EXCEPT !.pos = p0 + 8 * cnt, !.shift = 0,
                                             !.out = @ \o [j \in 1..cnt |-> TakeBits(bits, p0 + 8 * (j - 1), 8)]]

Decode(bits, ws) ==
  LET r == FoldLeft(LAMBDA st, i : HLStep(bits, ws, st),
                    [pos |-> 0, mode |-> 1, shift |-> 0, out |-> <<>>, done |-> FALSE, ok |-> TRUE, why |-> ""],
                    Iota((Len(bits) \div 4) + 2))
  IN [ok |-> r.ok /\ r.done, why |-> IF r.done THEN r.why ELSE "no-termination", out |-> r.out, used |-> r.pos]

\* un-stuff one data word into bits
Unstuff(x, w) == IF x = 1 THEN Rep(0, w - 1) ELSE IF x = 2 ^ w - 2 THEN Rep(1, w - 1) ELSE [i \in 1..w |-> (x \div 2 ^ (w - i)) % 2]

------------------------------------------------------------------------------
AFail(w) == [ok |-> FALSE, why |-> w]

Read(px) ==
  LET n == Len(px)
      c == n \div 2
  IN IF n < 15 \/ n % 2 = 0 \/ \E y \in 1..n : Len(px[y]) # n THEN AFail("size")
     ELSE IF \E y \in 1..n : \E x \in 1..n : px[y][x] \notin {0, 1} THEN AFail("colours")
     ELSE
     LET compact == n \in {15, 19, 23, 27} /\ M(px, c - 5, c - 5) = 1
         s == IF compact THEN 5 ELSE 7
         bullOK == \A x \in (1 - s)..(s - 1), y \in (1 - s)..(s - 1) : M(px, c + x, c + y) = 1 - (Max2(Abs(x), Abs(y)) % 2)
         orientOK == /\ M(px, c - s, c - s) = 1 /\ M(px, c - s + 1, c - s) = 1 /\ M(px, c - s, c - s + 1) = 1
                     /\ M(px, c + s, c - s) = 1 /\ M(px, c + s, c - s + 1) = 1 /\ M(px, c + s - 1, c - s) = 0
                     /\ M(px, c + s, c + s - 1) = 1 /\ M(px, c + s, c + s) = 0 /\ M(px, c + s - 1, c + s) = 0
                     /\ M(px, c - s, c + s) = 0 /\ M(px, c - s + 1, c + s) = 0 /\ M(px, c - s, c + s - 1) = 0
         offs == IF compact THEN [i \in 1..7 |-> c - 3 + (i - 1)] ELSE [i \in 1..10 |-> c - 5 + (i - 1) + ((i - 1) \div 5)]
         no == Len(offs)
         mm == [i \in 1..no |-> M(px, offs[i], c - s)] \o [i \in 1..no |-> M(px, c + s, offs[i])]
               \o [i \in 1..no |-> M(px, offs[no + 1 - i], c + s)] \o [i \in 1..no |-> M(px, c - s, offs[no + 1 - i])]
         mw == [i \in 1..(Len(mm) \div 4) |-> TakeBits(mm, 4 * (i - 1), 4)]
     IN IF ~bullOK THEN AFail("bullseye")
        ELSE IF ~orientOK THEN AFail("orientation")
        ELSE IF ~RSValid(G!F16, mw, IF compact THEN 5 ELSE 6) THEN AFail("mode-message-rs")
        ELSE
        LET layers == IF compact THEN (mw[1] \div 4) + 1 ELSE (mw[1] * 2 + (mw[2] \div 8)) + 1
            nd == IF compact THEN ((mw[1] % 4) * 16 + mw[2]) + 1 ELSE ((mw[2] % 8) * 256 + mw[3] * 16 + mw[4]) + 1
            base == BaseSize(layers, compact)
            lines == GridLines(n, compact)
            amap == AMap(n, compact)
            gridOK == \A L \in lines : \A k \in 0..(n - 1) :
                         (Abs(k - c) <= s /\ Abs(L - c) <= s) \/ (M(px, L, k) = 1 - (Abs(k - c) % 2) /\ M(px, k, L) = 1 - (Abs(k - c) % 2))
            w == WordSize(layers)
            tot == TotalBits(layers, compact)
        IN IF n # SymbolSize(layers, compact) \/ Len(amap) # base THEN AFail("mode-message-size")
           ELSE IF ~gridOK THEN AFail("reference-grid")
           ELSE
           LET spiral == Spiral(layers, compact)
               raw == SubSeq([t \in 1..Len(spiral) |-> M(px, spiral[t][1], spiral[t][2])], 1, Len(spiral))
               pad == tot % w
               nw == tot \div w
               F == FieldFor(w)
               cw == SubSeq([i \in 1..nw |-> TakeBits(raw, pad + w * (i - 1), w)], 1, nw)
           IN IF Len(raw) # tot THEN AFail("layer-count")
              ELSE IF \E i \in 1..pad : raw[i] # 0 THEN AFail("start-pad")
              ELSE IF Len(cw) # nw \/ nd > nw THEN AFail("mode-message-words")
              ELSE IF ~RSValid(F, cw, nw - nd) THEN AFail("reed-solomon")
              ELSE IF \E i \in 1..nd : cw[i] = 0 \/ cw[i] = 2 ^ w - 1 THEN AFail("all-zero-or-all-one-word")
              ELSE LET bits == FoldLeft(LAMBDA acc, i : acc \o Unstuff(cw[i], w), <<>>, Iota(nd))
                       d == Decode(bits, w)
                   IN IF ~d.ok THEN AFail("stream-" \o d.why)
                      ELSE [ok |-> TRUE, why |-> "", compact |-> compact, layers |-> layers, nd |-> nd, nw |-> nw, w |-> w,
                            out |-> d.out, used |-> d.used, nbits |-> Len(bits)]

------------------------------------------------------------------------------
\* Acceptance bounds (C10): capacity depends on how well the search compacts, so two-sided.
\* always available: one binary shift of everything (5 + 5 (+11) + 8n bits), stuffed in the worst case (w-1 payload bits per w-bit word)
BinaryBits(nb) == IF nb = 0 THEN 0 ELSE IF nb <= 31 THEN 10 + 8 * nb ELSE IF nb <= 62 THEN 20 + 8 * nb ELSE 21 + 8 * nb
EccBits(b, pct) == ((b * pct) \div 100) + 11
FitsWorst(b, pct, layers, compact) ==
  LET w == WordSize(layers)
      tot == TotalBits(layers, compact)
      stuffed == (((b + w - 2) \div (w - 1)) + 1) * w
  IN stuffed + EccBits(b, pct) <= tot - (tot % w) /\ (compact => stuffed <= 64 * w)
\* lower bound on the bits any encoding needs: 4 bits per byte
FitsBest(nb, pct, layers, compact) == 4 * nb + EccBits(4 * nb, pct) <= TotalBits(layers, compact)
LayerOK(req) == req \in -4..32
\* a tighter bound for payloads that admit exactly one encoding and cannot need bit stuffing: bytes 0xAA / 0xD5 only (both are
\* outside every character table, so only binary shift can carry them, and no run of five equal bits occurs anywhere in the
\* payload); three words of slack cover the shift headers, one more header per 2000 bytes covers chunked shifts.
\* (0x55 must not be used: it is the letter U, and the library's search then mixes modes and needs ~3% more bits than one
\* long binary shift - a heuristic sub-optimality that the two-sided acceptance deliberately tolerates.)
NoRuns(bytes) == bytes # <<>> /\ \A i \in 1..Len(bytes) : bytes[i] \in {170, 213}
FitsNoStuff(nb, pct, layers, compact) ==
  LET w == WordSize(layers)
      tot == TotalBits(layers, compact)
      b == 21 * (1 + (nb \div 2000)) + 8 * nb
      stuffed == (((b + w - 1) \div w) + 3) * w
  IN stuffed + EccBits(b, pct) <= tot - (tot % w) /\ (compact => stuffed <= 64 * w)
MustAccept(bytes, pct, req) ==
  LET nb == Len(bytes) IN
  /\ LayerOK(req) /\ pct >= 0
  /\ IF req = 0 THEN FitsWorst(BinaryBits(nb), pct, 32, FALSE) \/ (NoRuns(bytes) /\ FitsNoStuff(nb, pct, 32, FALSE))
     ELSE FitsWorst(BinaryBits(nb), pct, Abs(req), req < 0) \/ (NoRuns(bytes) /\ FitsNoStuff(nb, pct, Abs(req), req < 0))
MustReject(nb, pct, req) ==
  \/ ~LayerOK(req)
  \/ IF req = 0 THEN ~FitsBest(nb, pct, 32, FALSE) ELSE ~FitsBest(nb, pct, Abs(req), req < 0)
=============================================================================
