------------------------------- MODULE Code39 -------------------------------
(* Reference readers for Code 39 and Code 93, with check characters and full-ASCII shift pairs (C07, C14). *)
EXTENDS SymCommon, Tables1D

\* ---- Code 39: 9 elements (3 wide = 2 modules) = 12 modules, one narrow space between characters
C39Pat(i) == ExpandElems(C39Elems[i], 2)
C39Idx == Invert([i \in 1..44 |-> Num(C39Pat(i))], 4096)           \* 12-module number -> value 0..42, 43 = '*'
ASSUME /\ \A i \in 1..44 : Len(C39Pat(i)) = 12 /\ Sum(C39Elems[i]) = 3
       /\ Distinct([i \in 1..44 |-> Num(C39Pat(i))])

C39Rune(v) == C39Chars[v + 1]
C39Val(r) == IndexOf(C39Chars, r)         \* -1 if not in the alphabet; 43 for '*'

\* ---- Code 93: 9 modules per character, values 0..46, 47 = start/stop; termination bar
C93Idx == Invert([i \in 1..48 |-> Num(C93Pats[i])], 512)
ASSUME Distinct([i \in 1..48 |-> Num(C93Pats[i])]) /\ \A i \in 1..48 : Len(C93Pats[i]) = 9 /\ C93Pats[i][1] = 1 /\ C93Pats[i][9] = 0
\* runes of the 47 data values: the 43 of Code 39 and the shift characters ($) (%) (/) (+) as U+00F1..U+00F4
C93Rune(v) == IF v < 43 THEN C39Chars[v + 1] ELSE 241 + (v - 43)
C93Val(r) == IF r \in 241..244 THEN 43 + (r - 241) ELSE IF r = 42 THEN -1 ELSE C39Val(r)

\* ---- full-ASCII shift pairs (same scheme in both symbologies): shift in {"$","%","/","+"}, letter 'A'..'Z'
Pair(shift, letter) ==
  LET k == letter - 65 IN
  IF letter \notin 65..90 THEN -1
  ELSE CASE shift = "$" -> 1 + k                                       \* $A..$Z -> 1..26
         [] shift = "%" -> IF k <= 4 THEN 27 + k                       \* %A..%E -> ESC..US
                           ELSE IF k <= 9 THEN 59 + (k - 5)            \* %F..%J -> ; < = > ?
                           ELSE IF k <= 14 THEN 91 + (k - 10)          \* %K..%O -> [ \ ] ^ _
                           ELSE IF k <= 19 THEN 123 + (k - 15)         \* %P..%T -> { | } ~ DEL
                           ELSE IF k = 20 THEN 0                        \* %U -> NUL
                           ELSE IF k = 21 THEN 64                       \* %V -> @
                           ELSE IF k = 22 THEN 96                       \* %W -> `
                           ELSE 127                                     \* %X %Y %Z -> DEL
         [] shift = "/" -> IF k <= 14 THEN 33 + k ELSE IF k = 25 THEN 58 ELSE -1   \* /A../O -> ! .. /   /Z -> :
         [] shift = "+" -> 97 + k                                      \* +A..+Z -> a..z
         [] OTHER -> -1

\* resolve shift pairs in a sequence of [shift, rune] items: shift = "" for an ordinary character
ResolveStep(st, it) ==
  IF ~st.ok THEN st
  ELSE IF st.pend # "" THEN
         (IF it.shift # "" \/ Pair(st.pend, it.rune) < 0 THEN [st EXCEPT !.ok = FALSE]
          ELSE [st EXCEPT !.out = Append(@, Pair(st.pend, it.rune)), !.pend = ""])
  ELSE IF it.shift # "" THEN [st EXCEPT !.pend = it.shift]
  ELSE [st EXCEPT !.out = Append(@, it.rune)]
Resolve(items) == FoldLeft(ResolveStep, [ok |-> TRUE, pend |-> "", out |-> <<>>], items)

C39Item(v) == IF v = 39 THEN [shift |-> "$", rune |-> 36] ELSE IF v = 40 THEN [shift |-> "/", rune |-> 47]
              ELSE IF v = 41 THEN [shift |-> "+", rune |-> 43] ELSE IF v = 42 THEN [shift |-> "%", rune |-> 37]
              ELSE [shift |-> "", rune |-> C39Rune(v)]
C93Item(v) == IF v = 43 THEN [shift |-> "$", rune |-> 0] ELSE IF v = 44 THEN [shift |-> "%", rune |-> 0]
              ELSE IF v = 45 THEN [shift |-> "/", rune |-> 0] ELSE IF v = 46 THEN [shift |-> "+", rune |-> 0]
              ELSE [shift |-> "", rune |-> C39Rune(v)]

\* Read39(m, withCheck, fullASCII): data = the drawn data characters (check character removed), spelled = their runes
Read39(m, withCheck, fullASCII) ==
  LET n == Len(m)
      k == (n + 1) \div 13
  IN IF (n + 1) % 13 # 0 \/ k < 2 + (IF withCheck THEN 1 ELSE 0) THEN Fail("length")
     ELSE IF \E i \in 1..(k - 1) : m[13 * i] # 0 THEN Fail("gap")
     ELSE LET vals == [i \in 1..k |-> C39Idx[Num(Slice(m, 13 * (i - 1) + 1, 12))]]
          IN IF \E i \in 1..k : vals[i] < 0 THEN Fail("pattern")
             ELSE IF vals[1] # 43 \/ vals[k] # 43 \/ \E i \in 2..(k - 1) : vals[i] = 43 THEN Fail("startstop")
             ELSE LET inner == SubSeq(vals, 2, k - 1)
                      data == IF withCheck THEN Front(inner) ELSE inner
                      cv == Sum(data) % 43
                      res == IF fullASCII THEN Resolve([i \in 1..Len(data) |-> C39Item(data[i])])
                             ELSE [ok |-> TRUE, pend |-> "", out |-> [i \in 1..Len(data) |-> C39Rune(data[i])]]
                  IN IF withCheck /\ inner[Len(inner)] # cv THEN Fail("check")
                     ELSE IF ~res.ok \/ res.pend # "" THEN Fail("decode")
                     ELSE [ok |-> TRUE, why |-> "", runes |-> res.out, cs |-> cv,
                           spelled |-> [i \in 1..Len(data) |-> C39Rune(data[i])]]

Weighted(vals, maxw) == LET n == Len(vals) IN Sum([i \in 1..n |-> vals[i] * (((n - i) % maxw) + 1)]) % 47

Read93(m, withCheck, fullASCII) ==
  LET n == Len(m)
      k == (n - 1) \div 9
  IN IF (n - 1) % 9 # 0 \/ k < 2 + (IF withCheck THEN 2 ELSE 0) THEN Fail("length")
     ELSE IF m[n] # 1 THEN Fail("termination")
     ELSE LET vals == [i \in 1..k |-> C93Idx[Num(Slice(m, 9 * (i - 1) + 1, 9))]]
          IN IF \E i \in 1..k : vals[i] < 0 THEN Fail("pattern")
             ELSE IF vals[1] # 47 \/ vals[k] # 47 \/ \E i \in 2..(k - 1) : vals[i] = 47 THEN Fail("startstop")
             ELSE LET inner == SubSeq(vals, 2, k - 1)
                      data == IF withCheck THEN SubSeq(inner, 1, Len(inner) - 2) ELSE inner
                      c == Weighted(data, 20)
                      kk == Weighted(Append(data, c), 15)
                      res == IF fullASCII THEN Resolve([i \in 1..Len(data) |-> C93Item(data[i])])
                             ELSE [ok |-> TRUE, pend |-> "", out |-> [i \in 1..Len(data) |-> C93Rune(data[i])]]
                  IN IF withCheck /\ (inner[Len(inner) - 1] # c \/ inner[Len(inner)] # kk) THEN Fail("check")
                     ELSE IF ~res.ok \/ res.pend # "" THEN Fail("decode")
                     ELSE [ok |-> TRUE, why |-> "", runes |-> res.out, cs |-> -1,
                           spelled |-> [i \in 1..Len(data) |-> C93Rune(data[i])]]

Basic43(r) == C39Val(r) \in 0..42
Representable39(runes, fullASCII) == \A i \in 1..Len(runes) : IF fullASCII THEN runes[i] \in 0..127 ELSE Basic43(runes[i])
\* Code 93 basic mode: the placeholder runes U+00F1..U+00F4 are outside the property's domain ("don't care")
Representable93(runes, fullASCII) == Representable39(runes, fullASCII)
DontCare93(runes, fullASCII) == ~fullASCII /\ \E i \in 1..Len(runes) : runes[i] \in 241..244
-----------------------------------------------------------------------------
\* The standards' drawing rules (encoder models), used by MC_Code39 to check that the readers invert them.
\* full-ASCII spelling of a character: itself if it is in the basic alphabet (Code 39: except $ % / +), else its shift pair
SpellPair(c) == CHOOSE sp \in {"$", "%", "/", "+"} \X (65..90) :
                   /\ Pair(sp[1], sp[2]) = c
                   /\ \A sq \in {"$", "%", "/", "+"} \X (65..90) : Pair(sq[1], sq[2]) = c => (sq[2] >= sp[2] /\ (sq[2] = sp[2] => sq = sp))
HasPair(c) == \E sp \in {"$", "%", "/", "+"} \X (65..90) : Pair(sp[1], sp[2]) = c
ShiftVal39(s) == CASE s = "$" -> 39 [] s = "/" -> 40 [] s = "+" -> 41 [] s = "%" -> 42
ShiftVal93(s) == CASE s = "$" -> 43 [] s = "%" -> 44 [] s = "/" -> 45 [] s = "+" -> 46
Spell39(c) == IF C39Val(c) \in 0..38 THEN <<C39Val(c)>> ELSE LET sp == SpellPair(c) IN <<ShiftVal39(sp[1]), C39Val(sp[2])>>
Spell93(c) == IF C39Val(c) \in 0..42 THEN <<C39Val(c)>> ELSE LET sp == SpellPair(c) IN <<ShiftVal93(sp[1]), C39Val(sp[2])>>
SpellAll(f(_), cs) == FoldLeft(LAMBDA a, c : a \o f(c), <<>>, cs)

Draw39(vals, withCheck) ==
  LET body == IF withCheck THEN Append(vals, Sum(vals) % 43) ELSE vals
      all == <<43>> \o body \o <<43>>
  IN FoldLeft(LAMBDA a, i : a \o (IF i > 1 THEN <<0>> ELSE <<>>) \o C39Pat(all[i] + 1), <<>>, Iota(Len(all)))
Draw93(vals, withCheck) ==
  LET c == Weighted(vals, 20)
      body == IF withCheck THEN vals \o <<c, Weighted(Append(vals, c), 15)>> ELSE vals
      all == <<47>> \o body \o <<47>>
  IN FoldLeft(LAMBDA a, i : a \o C93Pats[all[i] + 1], <<>>, Iota(Len(all))) \o <<1>>
=============================================================================
