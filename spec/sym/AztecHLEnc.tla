------------------------------- MODULE AztecHLEnc -------------------------------
(***************************************************************************)
(* Encoder model: transcription of the Aztec high-level encoder            *)
(* (aztec/highlevel.go, state.go, token.go): a search over a set of states *)
(* [mode, tokens, bs (pending binary-shift bytes), bits], extended         *)
(* character by character (special handling of the four two-byte           *)
(* punctuation pairs), pruned by dominance, the cheapest survivor wins.    *)
(* Never used to judge the real encoder's output (any stream that decodes  *)
(* is acceptable); MC_AztecHL checks the DESIGN: for every string over     *)
(* representative bytes, the bit stream of the chosen state decodes,       *)
(* through the automaton of Aztec.tla, to the input, and its length is the *)
(* bit count the search believed.                                          *)
(* Modes here: 0 upper, 1 lower, 2 digit, 3 mixed, 4 punct (the library's  *)
(* order); ReaderMode maps them to the reader's numbering.                 *)
(***************************************************************************)
EXTENDS Aztec

CONSTANT BSFix     \* TRUE: as implemented. FALSE: the negative design in which a binary shift started from the punctuation mode is
                   \* not preceded by a latch to upper (value 31 in punctuation is "latch to upper", not "binary shift")

ModeBits(m) == IF m = 2 THEN 4 ELSE 5

\* character maps (0 = not in the table)
CharIn(m, ch) ==
  CASE m = 0 -> IF ch = 32 THEN 1 ELSE IF ch \in 65..90 THEN ch - 65 + 2 ELSE 0
    [] m = 1 -> IF ch = 32 THEN 1 ELSE IF ch \in 97..122 THEN ch - 97 + 2 ELSE 0
    [] m = 2 -> IF ch = 32 THEN 1 ELSE IF ch \in 48..57 THEN ch - 48 + 2 ELSE IF ch = 44 THEN 12 ELSE IF ch = 46 THEN 13 ELSE 0
    [] m = 3 -> LET t == <<0, 32, 1, 2, 3, 4, 5, 6, 7, 8, 9, 10, 11, 12, 13, 27, 28, 29, 30, 31, 64, 92, 94, 95, 96, 124, 126, 127>>
                IN IF \E i \in 2..Len(t) : t[i] = ch THEN (CHOOSE i \in 2..Len(t) : t[i] = ch) - 1 ELSE 0
    [] m = 4 -> \* the library's table has the apostrophe at indices 7 and 12 (so the double quote is not in it)
                LET t == <<0, 13, 0, 0, 0, 0, 33, 39, 35, 36, 37, 38, 39, 40, 41, 42, 43, 44, 45, 46, 47, 58, 59, 60, 61, 62, 63, 91, 93, 123, 125>>
                    hits == {i \in 1..Len(t) : t[i] = ch /\ ch > 0}
                IN IF hits = {} THEN 0 ELSE (CHOOSE i \in hits : \A j \in hits : j <= i) - 1

\* latch sequences as <<value, bit count>> tokens
Latch(from, to) ==
  CASE from = 0 -> CASE to = 1 -> <<<<28, 5>>>> [] to = 2 -> <<<<30, 5>>>> [] to = 3 -> <<<<29, 5>>>> [] to = 4 -> <<<<29 * 32 + 30, 10>>>> [] OTHER -> <<>>
    [] from = 1 -> CASE to = 0 -> <<<<30 * 16 + 14, 9>>>> [] to = 2 -> <<<<30, 5>>>> [] to = 3 -> <<<<29, 5>>>> [] to = 4 -> <<<<29 * 32 + 30, 10>>>> [] OTHER -> <<>>
    [] from = 2 -> CASE to = 0 -> <<<<14, 4>>>> [] to = 1 -> <<<<14 * 32 + 28, 9>>>> [] to = 3 -> <<<<14 * 32 + 29, 9>>>> [] to = 4 -> <<<<14 * 1024 + 29 * 32 + 30, 14>>>> [] OTHER -> <<>>
    [] from = 3 -> CASE to = 0 -> <<<<29, 5>>>> [] to = 1 -> <<<<28, 5>>>> [] to = 2 -> <<<<29 * 32 + 30, 10>>>> [] to = 4 -> <<<<30, 5>>>> [] OTHER -> <<>>
    [] from = 4 -> CASE to = 0 -> <<<<31, 5>>>> [] to = 1 -> <<<<31 * 32 + 28, 10>>>> [] to = 2 -> <<<<31 * 32 + 30, 10>>>> [] to = 3 -> <<<<31 * 32 + 29, 10>>>> [] OTHER -> <<>>
LatchCost(from, to) == IF from = to THEN 0 ELSE Latch(from, to)[1][2]
\* shifts: <<defined, code>>
Shift(from, to) == IF to = 4 /\ from \in {0, 1, 3, 2} THEN <<TRUE, 0>>
                   ELSE IF to = 0 /\ from = 1 THEN <<TRUE, 28>> ELSE IF to = 0 /\ from = 2 THEN <<TRUE, 15>> ELSE <<FALSE, 0>>

\* states
EndBS(s, index) == IF s.bs = 0 THEN s ELSE [s EXCEPT !.tokens = Append(@, <<"bs", index - s.bs, s.bs>>), !.bs = 0]     \* index zero based
LatchAndAppend(s, mode, value) ==
  [mode |-> mode, bs |-> 0,
   tokens |-> s.tokens \o (IF mode # s.mode THEN <<<<"t", Latch(s.mode, mode)[1][1], Latch(s.mode, mode)[1][2]>>>> ELSE <<>>) \o <<<<"t", value, ModeBits(mode)>>>>,
   bits |-> s.bits + LatchCost(s.mode, mode) + ModeBits(mode)]
ShiftAndAppend(s, mode, value) ==
  [mode |-> s.mode, bs |-> 0, tokens |-> s.tokens \o <<<<"t", Shift(s.mode, mode)[2], ModeBits(s.mode)>>, <<"t", value, 5>>>>,
   bits |-> s.bits + ModeBits(s.mode) + 5]
AddBS(s, index) ==
  LET pre == IF BSFix THEN s.mode \in {4, 2} ELSE s.mode = 2
      toks == IF pre THEN Append(s.tokens, <<"t", Latch(s.mode, 0)[1][1], Latch(s.mode, 0)[1][2]>>) ELSE s.tokens
      bits0 == s.bits + (IF pre THEN LatchCost(s.mode, 0) ELSE 0)
      delta == IF s.bs = 0 \/ s.bs = 31 THEN 18 ELSE IF s.bs = 62 THEN 9 ELSE 8
      r == [mode |-> IF pre THEN 0 ELSE s.mode, tokens |-> toks, bs |-> s.bs + 1, bits |-> bits0 + delta]
  IN IF r.bs = 2047 + 31 THEN EndBS(r, index + 1) ELSE r

Better(a, b) ==   \* a.isBetterThanOrEqualTo(b)
  LET sz == a.bits + LatchCost(a.mode, b.mode) + (IF b.bs > 0 /\ (a.bs = 0 \/ a.bs > b.bs) THEN 10 ELSE 0)
  IN sz <= b.bits

Simplify(states) ==     \* transcription of simplifyStates: `add` only ever turns false; an old state is dropped only while `add` still holds
  FoldLeft(LAMBDA result, new :
             LET scan == FoldLeft(LAMBDA st, old :
                                    LET add2 == st[2] /\ ~Better(old, new)
                                    IN <<IF ~(add2 /\ Better(new, old)) THEN Append(st[1], old) ELSE st[1], add2>>,
                                  <<<<>>, TRUE>>, result)
             IN IF scan[2] THEN Append(scan[1], new) ELSE scan[1],
           <<>>, states)

UpdateForChar(s, data, index) ==      \* index zero based
  LET ch == data[index + 1]
      inCur == CharIn(s.mode, ch) > 0
      nb == EndBS(s, index)
      perMode(m) == LET v == CharIn(m, ch) IN
                    IF v = 0 THEN <<>>
                    ELSE (IF ~inCur \/ m = s.mode \/ m = 2 THEN <<LatchAndAppend(nb, m, v)>> ELSE <<>>)
                         \o (IF ~inCur /\ Shift(s.mode, m)[1] THEN <<ShiftAndAppend(nb, m, v)>> ELSE <<>>)
  IN perMode(0) \o perMode(1) \o perMode(2) \o perMode(3) \o perMode(4)
     \o (IF s.bs > 0 \/ CharIn(s.mode, ch) = 0 THEN <<AddBS(s, index)>> ELSE <<>>)

UpdateForPair(s, data, index, pairCode) ==
  LET nb == EndBS(s, index)
  IN <<LatchAndAppend(nb, 4, pairCode)>>
     \o (IF s.mode # 4 THEN <<ShiftAndAppend(nb, 4, pairCode)>> ELSE <<>>)
     \o (IF pairCode \in {3, 4} THEN <<LatchAndAppend(LatchAndAppend(nb, 2, 16 - pairCode), 2, 1)>> ELSE <<>>)
     \o (IF s.bs > 0 THEN <<AddBS(AddBS(s, index), index + 1)>> ELSE <<>>)

PairCode(data, index) ==
  LET c == data[index + 1]
      n == IF index + 2 <= Len(data) THEN data[index + 2] ELSE 0
  IN IF c = 13 /\ n = 10 THEN 2 ELSE IF c = 46 /\ n = 32 THEN 3 ELSE IF c = 44 /\ n = 32 THEN 4 ELSE IF c = 58 /\ n = 32 THEN 5 ELSE 0

RECURSIVE Search(_, _, _)
Search(states, data, index) ==
  IF index >= Len(data) THEN states
  ELSE LET pc == PairCode(data, index) IN
       IF pc > 0
       THEN Search(Simplify(FoldLeft(LAMBDA acc, s : acc \o UpdateForPair(s, data, index, pc), <<>>, states)), data, index + 2)
       ELSE Search(Simplify(FoldLeft(LAMBDA acc, s : acc \o UpdateForChar(s, data, index), <<>>, states)), data, index + 1)

Initial == [mode |-> 0, tokens |-> <<>>, bs |-> 0, bits |-> 0]
Best(data) == LET ss == Search(<<Initial>>, data, 0)
              IN ss[CHOOSE k \in 1..Len(ss) : \A j \in 1..Len(ss) : ss[k].bits < ss[j].bits \/ (ss[k].bits = ss[j].bits /\ k <= j)]

BitsOfVal(v, w) == [i \in 1..w |-> (v \div 2 ^ (w - i)) % 2]
TokenBits(tok, data) ==
  IF tok[1] = "t" THEN BitsOfVal(tok[2], tok[3])
  ELSE LET start == tok[2]
           cnt == tok[3]
       IN FoldLeft(LAMBDA acc, i :
                     acc \o (IF i = 0 \/ (i = 31 /\ cnt <= 62)
                             THEN BitsOfVal(31, 5) \o (IF cnt > 62 THEN BitsOfVal(cnt - 31, 16)
                                                       ELSE IF i = 0 THEN BitsOfVal(IF cnt < 31 THEN cnt ELSE 31, 5)
                                                       ELSE BitsOfVal(cnt - 31, 5))
                             ELSE <<>>)
                         \o BitsOfVal(data[start + i + 1], 8),
                   <<>>, [k \in 1..cnt |-> k - 1])
ToBits(data) == LET s == EndBS(Best(data), Len(data)) IN FoldLeft(LAMBDA acc, t : acc \o TokenBits(t, data), <<>>, s.tokens)
=============================================================================
