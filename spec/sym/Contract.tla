------------------------------ MODULE Contract ------------------------------
(***************************************************************************)
(* The rendering contract every encoded barcode obeys (C11) and helpers    *)
(* for judging an encode event.  An encode event e carries the arguments   *)
(* (sym, api, content bytes, runes, p, scheme) and the projected result    *)
(* e.res; pixel classes: 0 = background of the scheme in force, 1 = its    *)
(* foreground, >= 2 = any other colour.                                    *)
(***************************************************************************)
EXTENDS Integers, Sequences, SequencesExt, FiniteSets

WithColor(e) == e.api \in {"EncodeWithColor", "EncodeWithoutChecksumWithColor"}

\* colours / model of the scheme in force: the caller's for WithColor variants, else black on white Gray16
ExpFg(e) == IF WithColor(e) THEN e.res.reflist[2] ELSE "color.Gray16{0}"
ExpBg(e) == IF WithColor(e) THEN e.res.reflist[1] ELSE "color.Gray16{65535}"
ExpModel(e) == IF WithColor(e) THEN e.scheme.model ELSE "gray16"

\* tags of the violated clauses of the rendering contract; w, h = the size the symbology prescribes
ContractTags(e, w, h, kind, dim) ==
  LET r == e.res IN
     (IF r.minx # 0 \/ r.miny # 0 \/ r.w # w \/ r.hh # h \/ Len(r.px) # h \/ (h > 0 /\ Len(r.px[1]) # w) THEN <<"bounds">> ELSE <<>>)
  \o (IF \E y \in 1..Len(r.px) : \E x \in 1..Len(r.px[y]) : r.px[y][x] \notin {0, 1} THEN <<"colours">> ELSE <<>>)
  \o (IF ~r.hasscheme \/ r.sfg # ExpFg(e) \/ r.sbg # ExpBg(e) \/ r.smodel # ExpModel(e) \/ r.reflist[2] # ExpFg(e) \/ r.reflist[1] # ExpBg(e)
      THEN <<"scheme">> ELSE <<>>)
  \o (IF r.model # ExpModel(e) THEN <<"model">> ELSE <<>>)
  \o (IF r.mkind # kind \/ r.mdim # dim THEN <<"metadata">> ELSE <<>>)

\* result shapes (C10): exactly ok (barcode, nil error) or error (nil barcode, error)
OutcomeTags(e) == IF e.res.kind \in {"ok", "error"} THEN <<>> ELSE <<"outcome-" \o e.res.kind>>

\* acceptance (C10): rep = representable, dontcare = outside the property's domain
AcceptTags(e, rep, dontcare) ==
  IF dontcare \/ e.res.kind \notin {"ok", "error"} THEN <<>>
  ELSE IF e.res.kind = "error" /\ rep THEN <<"reject-representable">>
  ELSE IF e.res.kind = "ok" /\ ~rep THEN <<"accept-unrepresentable">>
  ELSE <<>>

\* UTF-8 of runes below U+0800
Utf8(runes) == FoldLeft(LAMBDA acc, r : IF r < 128 THEN Append(acc, r) ELSE acc \o <<192 + (r \div 64), 128 + (r % 64)>>, <<>>, runes)

\* key under which "same arguments apart from the colour scheme" are joined
PatternKey(e) == <<e.sym, IF e.api = "EncodeWithColor" THEN "Encode"
                          ELSE IF e.api = "EncodeWithoutChecksumWithColor" THEN "EncodeWithoutChecksum" ELSE e.api, e.content, e.p>>
=============================================================================
