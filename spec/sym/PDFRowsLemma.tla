----------------------------- MODULE PDFRowsLemma -----------------------------
(* Unbounded arithmetic behind PDFDims (checked with Apalache, --length=0 --inv=Inv): for ALL naturals m (data codewords),  *)
(* k >= 2 (check codewords) and c >= 1 (columns), calculateNumberOfRows returns the ceiling of (m + 1 + k) / c, the number  *)
(* of pad codewords getPadding adds is r * c - (m + 1 + k), and it is smaller than one row.                                  *)
EXTENDS Integers
VARIABLES
  \* @type: Int;
  m,
  \* @type: Int;
  k,
  \* @type: Int;
  c,
  \* @type: Int;
  r,
  \* @type: Int;
  pad
Init == /\ m \in Nat /\ k \in Nat /\ k >= 2 /\ c \in Nat /\ c >= 1
        /\ LET r0 == ((m + 1 + k) \div c) + 1 IN r = IF c * r0 >= m + 1 + k + c THEN r0 - 1 ELSE r0
        /\ LET t == (m + k + 1) % c IN pad = IF t > 0 THEN c - t ELSE 0
Next == UNCHANGED <<m, k, c, r, pad>>
Inv == LET n == m + 1 + k IN
       /\ r * c >= n /\ (r - 1) * c < n
       /\ pad = r * c - n
       /\ pad >= 0 /\ pad < c
=============================================================================
