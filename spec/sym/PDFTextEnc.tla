------------------------------- MODULE PDFTextEnc -------------------------------
(***************************************************************************)
(* Encoder model: transcription of pdf417.highlevelEncode (segmentation    *)
(* into numeric / text / byte runs with its 13-digit and 5-character       *)
(* thresholds), encodeText (the sub-mode machine with its odd-length pad), *)
(* encodeBinary (913 / 924 / 901) and encodeNumeric.  Never used to judge  *)
(* the real encoder's output; MC_PDFText checks the DESIGN: for every      *)
(* string over representative bytes the emitted codewords decode, through  *)
(* the compaction automaton of PDF417.tla, to the input.                   *)
(* PadFix = FALSE is the design as it was in the pinned tree (the pad      *)
(* value 29 emitted in the punctuation sub-mode is "latch to alpha" but    *)
(* the encoder kept believing it was in punctuation): the negative model,  *)
(* for which TLC finds the desynchronisation without running any code.     *)
(***************************************************************************)
EXTENDS PDF417

CONSTANT PadFix

IsTextCh(c) == c \in {9, 10, 13} \/ c \in 32..126
RECURSIVE DigitCount(_, _)
DigitCount(d, i) == IF i <= Len(d) /\ IsDigit(d[i]) THEN 1 + DigitCount(d, i + 1) ELSE 0
RECURSIVE TextCount(_, _)
TextCount(d, i) == IF i > Len(d) THEN 0
                   ELSE LET nc == DigitCount(d, i) IN
                        IF nc >= 13 \/ (nc = 0 /\ ~IsTextCh(d[i])) THEN 0 ELSE 1 + TextCount(d, i + 1)
RECURSIVE BinaryCount(_, _)
BinaryCount(d, i) == IF i > Len(d) THEN 0
                     ELSE IF DigitCount(d, i) >= 13 \/ TextCount(d, i) > 5 THEN 0 ELSE 1 + BinaryCount(d, i + 1)

IdxOf(tab, c) == IF \E k \in 1..Len(tab) : tab[k] = c THEN (CHOOSE k \in 1..Len(tab) : tab[k] = c) - 1 ELSE -1
IsUpperCh(c) == c = 32 \/ c \in 65..90
IsLowerCh(c) == c = 32 \/ c \in 97..122
IsMixedCh(c) == IdxOf(TextMi, c) >= 0                           \* includes space (index 26), as the library's mixed map does
IsPunctCh(c) == IdxOf(TextPu, c) >= 0

\* encodeText: returns [sub, vals]; sub-modes "A" (upper), "L", "M", "P"
RECURSIVE EncTextVals(_, _, _, _)
EncTextVals(t, i, sub, acc) ==
  IF i > Len(t) THEN [sub |-> sub, vals |-> acc]
  ELSE LET c == t[i] IN
  CASE sub = "A" -> IF IsUpperCh(c) THEN EncTextVals(t, i + 1, sub, Append(acc, IF c = 32 THEN 26 ELSE c - 65))
                    ELSE IF IsLowerCh(c) THEN EncTextVals(t, i, "L", Append(acc, 27))
                    ELSE IF IsMixedCh(c) THEN EncTextVals(t, i, "M", Append(acc, 28))
                    ELSE EncTextVals(t, i + 1, sub, acc \o <<29, IdxOf(TextPu, c)>>)
    [] sub = "L" -> IF IsLowerCh(c) THEN EncTextVals(t, i + 1, sub, Append(acc, IF c = 32 THEN 26 ELSE c - 97))
                    ELSE IF IsUpperCh(c) THEN EncTextVals(t, i + 1, sub, acc \o <<27, c - 65>>)
                    ELSE IF IsMixedCh(c) THEN EncTextVals(t, i, "M", Append(acc, 28))
                    ELSE EncTextVals(t, i + 1, sub, acc \o <<29, IdxOf(TextPu, c)>>)
    [] sub = "M" -> IF IsMixedCh(c) THEN EncTextVals(t, i + 1, sub, Append(acc, IdxOf(TextMi, c)))
                    ELSE IF IsUpperCh(c) THEN EncTextVals(t, i, "A", Append(acc, 28))
                    ELSE IF IsLowerCh(c) THEN EncTextVals(t, i, "L", Append(acc, 27))
                    ELSE IF i + 1 <= Len(t) /\ IsPunctCh(t[i + 1]) THEN EncTextVals(t, i, "P", Append(acc, 25))
                    ELSE EncTextVals(t, i + 1, sub, acc \o <<29, IdxOf(TextPu, c)>>)
    [] sub = "P" -> IF IsPunctCh(c) THEN EncTextVals(t, i + 1, sub, Append(acc, IdxOf(TextPu, c)))
                    ELSE EncTextVals(t, i, "A", Append(acc, 29))
EncText(t, sub) ==
  LET r == EncTextVals(t, 1, sub, <<>>)
      n == Len(r.vals)
      full == [k \in 1..(n \div 2) |-> r.vals[2 * k - 1] * 30 + r.vals[2 * k]]
  IN [sub |-> IF n % 2 = 1 /\ PadFix /\ r.sub = "P" THEN "A" ELSE r.sub,
      cws |-> IF n % 2 = 1 THEN Append(full, r.vals[n] * 30 + 29) ELSE full]

EncBinary(bytes, inText) ==
  LET n == Len(bytes)
      head == IF n = 1 /\ inText THEN <<913>> ELSE IF n % 6 = 0 THEN <<924>> ELSE <<901>>
      g == n \div 6
  IN head \o FoldLeft(LAMBDA a, k : a \o Pack6(SubSeq(bytes, 6 * (k - 1) + 1, 6 * k)), <<>>, Iota(g)) \o SubSeq(bytes, 6 * g + 1, n)

EncNumeric(digits) ==
  LET n == Len(digits)
      chunks == (n + 43) \div 44
  IN FoldLeft(LAMBDA a, k : a \o PackNum([j \in 1..((IF 44 * k < n THEN 44 * k ELSE n) - 44 * (k - 1)) |-> digits[44 * (k - 1) + j] - 48]), <<>>, Iota(chunks))

\* highlevelEncode: mode in {"text", "num", "bin"}
RECURSIVE HL(_, _, _, _, _)
HL(d, i, mode, sub, acc) ==
  IF i > Len(d) THEN acc
  ELSE LET nc == DigitCount(d, i)
           rest == Len(d) - i + 1
       IN IF nc >= 13 \/ nc = rest
          THEN HL(d, i + nc, "num", "A", acc \o <<902>> \o EncNumeric(SubSeq(d, i, i + nc - 1)))
          ELSE LET tc == TextCount(d, i) IN
               IF tc >= 5 \/ tc = rest
               THEN LET latch == IF mode # "text" THEN <<900>> ELSE <<>>
                        s0 == IF mode # "text" THEN "A" ELSE sub
                        r == EncText(SubSeq(d, i, i + tc - 1), s0)
                    IN HL(d, i + tc, "text", r.sub, acc \o latch \o r.cws)
               ELSE LET bc0 == BinaryCount(d, i)
                        bc == IF bc0 = 0 THEN 1 ELSE bc0
                        single == bc = 1 /\ mode = "text"
                    IN HL(d, i + bc, IF single THEN "text" ELSE "bin", IF single THEN sub ELSE "A",
                          acc \o EncBinary(SubSeq(d, i, i + bc - 1), single))
HighLevel(d) == HL(d, 1, "text", "A", <<>>)
=============================================================================
