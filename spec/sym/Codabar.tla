------------------------------- MODULE Codabar -------------------------------
(* Reference readers for Codabar and (standard / interleaved) 2 of 5, and the 2 of 5 check digit (C08). *)
EXTENDS SymCommon, Tables1D

CodaIdx == Invert([i \in 1..20 |-> Num(CodaElems[i])], 128)
ASSUME Distinct([i \in 1..20 |-> Num(CodaElems[i])])

IsStartStop(r) == r \in 65..68
IsCodaData(r) == IsDigit(r) \/ r \in {45, 36, 58, 47, 46, 43}      \* - $ : / . +

RepresentableCodabar(runes) ==
  /\ Len(runes) >= 2 /\ IsStartStop(runes[1]) /\ IsStartStop(runes[Len(runes)])
  /\ \A i \in 2..(Len(runes) - 1) : IsCodaData(runes[i])

\* run-length reader: every character is 7 elements (narrow = 1, wide = 2 modules), a narrow space between characters
ReadCodabar(m) ==
  LET rs == Runs(m)
      n == Len(rs)
      k == (n + 1) \div 8
  IN IF m = <<>> \/ m[1] # 1 \/ (n + 1) % 8 # 0 THEN Fail("length")
     ELSE IF \E i \in 1..n : rs[i][2] \notin {1, 2} THEN Fail("element")
     ELSE IF \E i \in 1..(k - 1) : rs[8 * i][2] # 1 THEN Fail("gap")
     ELSE LET vals == [i \in 1..k |-> CodaIdx[Num([j \in 1..7 |-> rs[8 * (i - 1) + j][2] - 1])]]
          IN IF \E i \in 1..k : vals[i] < 0 THEN Fail("pattern")
             ELSE [ok |-> TRUE, why |-> "", runes |-> [i \in 1..k |-> CodaChars[vals[i] + 1]], cs |-> -1]

\* ---- 2 of 5
D25Idx == Invert([i \in 1..10 |-> Num(D25[i])], 32)
ASSUME Distinct([i \in 1..10 |-> Num(D25[i])]) /\ \A i \in 1..10 : Sum(D25[i]) = 2

Representable25(bytes, interleaved) ==
  /\ Len(bytes) >= 1 /\ \A i \in 1..Len(bytes) : IsDigit(bytes[i])
  /\ interleaved => Len(bytes) % 2 = 0

\* narrow = 1 module, wide = 2 or 3 modules
Read25(m, interleaved) ==
  LET rs == Runs(m)
      n == Len(rs)
      w == [i \in 1..n |-> IF rs[i][2] >= 2 THEN 1 ELSE 0]
  IN IF m = <<>> \/ m[1] # 1 \/ m[Len(m)] # 1 THEN Fail("quiet")
     ELSE IF \E i \in 1..n : rs[i][2] \notin {1, 2, 3} THEN Fail("element")
     ELSE IF interleaved THEN
        IF n < 7 \/ (n - 7) % 10 # 0 THEN Fail("length")
        ELSE IF SubSeq(w, 1, 4) # <<0, 0, 0, 0>> \/ SubSeq(w, n - 2, n) # <<1, 0, 0>> THEN Fail("startstop")
        ELSE LET p == (n - 7) \div 10
                 ds == [i \in 1..(2 * p) |->
                          LET base == 4 + 10 * ((i - 1) \div 2) + (IF i % 2 = 1 THEN 1 ELSE 2)
                          IN D25Idx[Num([j \in 1..5 |-> w[base + 2 * (j - 1)]])]]
             IN IF \E i \in 1..(2 * p) : ds[i] < 0 THEN Fail("pattern")
                ELSE [ok |-> TRUE, why |-> "", runes |-> [i \in 1..(2 * p) |-> 48 + ds[i]], cs |-> -1]
     ELSE
        IF \E i \in 1..n : rs[i][1] = 0 /\ rs[i][2] # 1 THEN Fail("space")
        ELSE LET bars == SelectSeq(Iota(n), LAMBDA i : rs[i][1] = 1)
                 bw == [i \in 1..Len(bars) |-> w[bars[i]]]
                 nb == Len(bw)
             IN IF nb < 6 \/ (nb - 6) % 5 # 0 THEN Fail("length")
                ELSE IF SubSeq(bw, 1, 3) # <<1, 1, 0>> \/ SubSeq(bw, nb - 2, nb) # <<1, 0, 1>> THEN Fail("startstop")
                ELSE LET p == (nb - 6) \div 5
                         ds == [i \in 1..p |-> D25Idx[Num(SubSeq(bw, 3 + 5 * (i - 1) + 1, 3 + 5 * i))]]
                     IN IF \E i \in 1..p : ds[i] < 0 THEN Fail("pattern")
                        ELSE [ok |-> TRUE, why |-> "", runes |-> [i \in 1..p |-> 48 + ds[i]], cs |-> -1]

\* check digit: weight 3 on the rightmost data digit, then 1, 3, ...; the digit making the total a multiple of ten
CheckDigit25(ds) == LET n == Len(ds)
                        s == Sum([i \in 1..n |-> ds[i] * (IF (n - i) % 2 = 0 THEN 3 ELSE 1)])
                    IN (10 - (s % 10)) % 10
-----------------------------------------------------------------------------
\* The standards' drawing rules (encoder models), used by MC_1DSmall to check that the readers invert them.
DrawCodabar(runes) == FoldLeft(LAMBDA a, i : a \o (IF i > 1 THEN <<0>> ELSE <<>>) \o ExpandElems(CodaElems[IndexOf(CodaChars, runes[i]) + 1], 2),
                               <<>>, Iota(Len(runes)))
Draw25(ds, interleaved, wide) ==
  IF interleaved
  THEN <<1, 0, 1, 0>>
       \o FoldLeft(LAMBDA a, p : a \o FoldLeft(LAMBDA b, j : b \o Rep(1, IF D25[ds[2 * p - 1] + 1][j] = 1 THEN wide ELSE 1)
                                                                 \o Rep(0, IF D25[ds[2 * p] + 1][j] = 1 THEN wide ELSE 1), <<>>, Iota(5)),
                    <<>>, Iota(Len(ds) \div 2))
       \o Rep(1, wide) \o <<0, 1>>
  ELSE Rep(1, wide) \o <<0>> \o Rep(1, wide) \o <<0, 1, 0>>
       \o FoldLeft(LAMBDA a, i : a \o FoldLeft(LAMBDA b, j : b \o Rep(1, IF D25[ds[i] + 1][j] = 1 THEN wide ELSE 1) \o <<0>>, <<>>, Iota(5)),
                    <<>>, Iota(Len(ds)))
       \o Rep(1, wide) \o <<0, 1, 0>> \o Rep(1, wide)
=============================================================================
