--------------------------------- MODULE EAN ---------------------------------
(* Reference reader and acceptance rule for EAN-8 / EAN-13 (C06, C14). *)
EXTENDS SymCommon, Tables1D

L(d) == EANL[d + 1]
R(d) == [i \in 1..7 |-> 1 - L(d)[i]]
G(d) == [i \in 1..7 |-> R(d)[8 - i]]
LIdx == Invert([d \in 1..10 |-> Num(L(d - 1))], 128)
RIdx == Invert([d \in 1..10 |-> Num(R(d - 1))], 128)
GIdx == Invert([d \in 1..10 |-> Num(G(d - 1))], 128)
ParIdx == Invert([d \in 1..10 |-> Num(EANParity[d])], 64)

ASSUME /\ Distinct([d \in 1..30 |-> Num(IF d <= 10 THEN L(d - 1) ELSE IF d <= 20 THEN R(d - 11) ELSE G(d - 21))])
       /\ Distinct([d \in 1..10 |-> Num(EANParity[d])])

\* GS1 check digit of a digit sequence (values 0..9): weights 3,1,3,... from the right.
\* As an automaton read left to right: state = sum mod 10, the weight of position i is 3 iff (n - i) is even.
Check(ds) == LET n == Len(ds)
                 s == FoldLeft(LAMBDA acc, i : (acc + ds[i] * (IF (n - i) % 2 = 0 THEN 3 ELSE 1)) % 10, 0, Iota(n))
             IN (10 - s) % 10

Digits(bytes) == [i \in 1..Len(bytes) |-> bytes[i] - 48]
AllDigits(bytes) == \A i \in 1..Len(bytes) : IsDigit(bytes[i])

Representable(bytes) ==
  /\ AllDigits(bytes)
  /\ \/ Len(bytes) \in {7, 12}
     \/ Len(bytes) \in {8, 13} /\ Digits(bytes)[Len(bytes)] = Check(Front(Digits(bytes)))

\* the full number the symbol must carry
Completed(bytes) == IF Len(bytes) \in {7, 12} THEN Append(bytes, 48 + Check(Digits(bytes))) ELSE bytes

Guard3 == <<1, 0, 1>>
Centre5 == <<0, 1, 0, 1, 0>>

Read(m) ==
  IF Len(m) = 67 THEN
     IF Slice(m, 1, 3) # Guard3 \/ Slice(m, 32, 5) # Centre5 \/ Slice(m, 65, 3) # Guard3 THEN Fail("guard")
     ELSE LET left == [i \in 1..4 |-> LIdx[Num(Slice(m, 4 + 7 * (i - 1), 7))]]
              right == [i \in 1..4 |-> RIdx[Num(Slice(m, 37 + 7 * (i - 1), 7))]]
              ds == left \o right
          IN IF \E i \in 1..8 : ds[i] < 0 THEN Fail("pattern")
             ELSE IF ds[8] # Check(Front(ds)) THEN Fail("check")
             ELSE [ok |-> TRUE, why |-> "", runes |-> [i \in 1..8 |-> 48 + ds[i]], cs |-> ds[8], kind |-> "EAN 8"]
  ELSE IF Len(m) = 95 THEN
     IF Slice(m, 1, 3) # Guard3 \/ Slice(m, 46, 5) # Centre5 \/ Slice(m, 93, 3) # Guard3 THEN Fail("guard")
     ELSE LET ln == [i \in 1..6 |-> Num(Slice(m, 4 + 7 * (i - 1), 7))]
              par == [i \in 1..6 |-> IF LIdx[ln[i]] >= 0 THEN 0 ELSE IF GIdx[ln[i]] >= 0 THEN 1 ELSE 2]
              left == [i \in 1..6 |-> IF par[i] = 0 THEN LIdx[ln[i]] ELSE IF par[i] = 1 THEN GIdx[ln[i]] ELSE -1]
              right == [i \in 1..6 |-> RIdx[Num(Slice(m, 51 + 7 * (i - 1), 7))]]
          IN IF \E i \in 1..6 : left[i] < 0 \/ right[i] < 0 THEN Fail("pattern")
             ELSE IF ParIdx[Num(par)] < 0 THEN Fail("parity")
             ELSE LET ds == <<ParIdx[Num(par)]>> \o left \o right
                  IN IF ds[13] # Check(Front(ds)) THEN Fail("check")
                     ELSE [ok |-> TRUE, why |-> "", runes |-> [i \in 1..13 |-> 48 + ds[i]], cs |-> ds[13], kind |-> "EAN 13"]
  ELSE Fail("length")
-----------------------------------------------------------------------------
\* The standard's drawing rule (encoder model), used by MC_EAN to check that Read inverts it.
Draw(ds) ==     \* ds: 8 or 13 digit values
  IF Len(ds) = 8
  THEN Guard3 \o FoldLeft(LAMBDA a, i : a \o L(ds[i]), <<>>, Iota(4)) \o Centre5
              \o FoldLeft(LAMBDA a, i : a \o R(ds[4 + i]), <<>>, Iota(4)) \o Guard3
  ELSE Guard3 \o FoldLeft(LAMBDA a, i : a \o (IF EANParity[ds[1] + 1][i] = 1 THEN G(ds[i + 1]) ELSE L(ds[i + 1])), <<>>, Iota(6)) \o Centre5
              \o FoldLeft(LAMBDA a, i : a \o R(ds[7 + i]), <<>>, Iota(6)) \o Guard3
=============================================================================
