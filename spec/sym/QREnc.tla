--------------------------------- MODULE QREnc ---------------------------------
(***************************************************************************)
(* Encoder model: transcription of the QR data-stream encoders             *)
(* (qr/numeric.go, alphanumeric.go, unicode.go, automatic.go,              *)
(* findSmallestVersionInfo and addPaddingAndTerminator): mode indicator,   *)
(* character count of the width the chosen version prescribes, payload     *)
(* (digit triples in 10/7/4 bits, character pairs in 11/6 bits, bytes),    *)
(* at most four terminator zeros, zeros to the byte boundary, alternating  *)
(* pad codewords 236 / 17 up to the data capacity of (version, level).     *)
(* Auto tries Numeric, AlphaNumeric, Unicode in that order.                *)
(* MC_QREnc checks the DESIGN: every stream parses back, through the       *)
(* segment automaton of QR.tla, to the input, in one segment of the        *)
(* densest admissible mode, in the smallest version; unrepresentable       *)
(* inputs are refused.  TraceEnc compares the real encoders with it.       *)
(***************************************************************************)
EXTENDS QR

CONSTANT SignFix

BitsOf(x, w) == [i \in 1..w |-> BitOf(x, w - i)]
AlnumIdx(c) == (CHOOSE i \in 1..45 : AlnumChars[i] = c) - 1

\* digit groups of three (the last one shorter). SignFix = TRUE: as implemented, a group must consist of digits. SignFix = FALSE: the design of
\* the pinned tree, in which a group was handed to a number parser that also swallows a leading sign ("+12" -> 12 -> "012"): the negative
\* model for which TLC finds the content that does not read back.
Group(bytes, g) == SubSeq(bytes, 3 * g - 2, IF 3 * g <= Len(bytes) THEN 3 * g ELSE Len(bytes))
GroupOK(ch) == (\A i \in 1..Len(ch) : IsDigit(ch[i]))
               \/ (~SignFix /\ Len(ch) >= 2 /\ ch[1] = 43 /\ \A i \in 2..Len(ch) : IsDigit(ch[i]))
GroupVal(ch) == FoldLeft(LAMBDA a, c : IF IsDigit(c) THEN 10 * a + (c - 48) ELSE a, 0, ch)
NumGroups(bytes) == (Len(bytes) + 2) \div 3
NumericOK(bytes) == \A g \in 1..NumGroups(bytes) : GroupOK(Group(bytes, g))
NumPayload(bytes) ==
  FoldLeft(LAMBDA acc, g : LET ch == Group(bytes, g) IN acc \o BitsOf(GroupVal(ch), <<4, 7, 10>>[Len(ch)]), <<>>, Iota(NumGroups(bytes)))
AlnumPayload(bytes) ==
  LET n == Len(bytes)
      full == n \div 2
  IN FoldLeft(LAMBDA acc, g : acc \o BitsOf(45 * AlnumIdx(bytes[2 * g - 1]) + AlnumIdx(bytes[2 * g]), 11), <<>>, Iota(full))
     \o (IF n % 2 = 1 THEN BitsOf(AlnumIdx(bytes[n]), 6) ELSE <<>>)
BytePayload(bytes) == FoldLeft(LAMBDA acc, b : acc \o BitsOf(b, 8), <<>>, bytes)

PadAndTerminate(head, cap) ==
  LET t == IF cap - Len(head) < 4 THEN cap - Len(head) ELSE 4
      h2 == head \o Rep(0, t)
      h3 == h2 \o Rep(0, (8 - (Len(h2) % 8)) % 8)
      npad == (cap - Len(h3)) \div 8
  IN h3 \o FoldLeft(LAMBDA acc, i : acc \o BitsOf(IF i % 2 = 1 THEN 236 ELSE 17, 8), <<>>, Iota(npad))

NoEnc == [ok |-> FALSE, v |-> 0, bits |-> <<>>]
\* one mode encoder: md in {1, 2, 4}
EncMode(bytes, level, md) ==
  LET v == MinVersion(level, md, Len(bytes))
  IN IF v = 0 \/ ~(IF md = 1 THEN NumericOK(bytes) ELSE Expressible(md, bytes)) THEN NoEnc
     ELSE [ok |-> TRUE, v |-> v,
           bits |-> PadAndTerminate(BitsOf(md, 4) \o BitsOf(Len(bytes), CountBits(v, md))
                                    \o (CASE md = 1 -> NumPayload(bytes) [] md = 2 -> AlnumPayload(bytes) [] md = 4 -> BytePayload(bytes)),
                                    8 * DataCW(v, level))]
\* API mode 0 Auto, 1 Numeric, 2 AlphaNumeric, 3 Unicode
Enc(bytes, level, apimode) ==
  CASE apimode = 1 -> EncMode(bytes, level, 1)
    [] apimode = 2 -> EncMode(bytes, level, 2)
    [] apimode = 3 -> EncMode(bytes, level, 4)
    [] apimode = 0 -> LET a == EncMode(bytes, level, 1) IN IF a.ok THEN a
                      ELSE LET b == EncMode(bytes, level, 2) IN IF b.ok THEN b ELSE EncMode(bytes, level, 4)
=============================================================================
