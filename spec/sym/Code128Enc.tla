----------------------------- MODULE Code128Enc -----------------------------
(***************************************************************************)
(* Encoder model: transcription of code128.getCodeIndexList with its two   *)
(* look-ahead predicates (shouldUseCTable, shouldUseATable).  It is never  *)
(* used to judge the real encoder's output (any code-set path that decodes *)
(* is acceptable); MC_Code128 checks the *design*: for every string over a *)
(* representative alphabet the emitted values decode, through the reader   *)
(* automaton of Code128.tla, to the input.                                 *)
(***************************************************************************)
EXTENDS Code128

InAB(r) == r \in 32..95
InBOnly(r) == r \in 96..127
InAOnly(r) == r \in 0..31
IsFNC(r) == r \in 241..244
InATable(r) == InAB(r) \/ InAOnly(r) \/ IsFNC(r)      \* tableContainsRune(aTable, r)
InBTable(r) == InAB(r) \/ InBOnly(r) \/ IsFNC(r)
Dig(r) == r \in 48..57

\* shouldUseCTable(next, cur)
RECURSIVE CScan(_, _, _)
CScan(next, i, required) ==     \* i zero based
  IF i >= required THEN TRUE
  ELSE IF i % 2 = 0 /\ next[i + 1] = 241
       THEN (IF Len(next) < required + 1 THEN FALSE ELSE CScan(next, i + 1, required + 1))
       ELSE IF ~Dig(next[i + 1]) THEN FALSE ELSE CScan(next, i + 1, required)
UseC(next, cur) == LET req == IF cur = 105 THEN 2 ELSE 4
                   IN IF Len(next) < req THEN FALSE ELSE CScan(next, 0, req)

\* the cur = 0 look-ahead of shouldUseATable: A iff an A-only character comes before any character outside A&B
RECURSIVE ALook(_, _)
ALook(next, i) == IF i > Len(next) THEN FALSE
                  ELSE IF InAB(next[i]) \/ IsFNC(next[i]) THEN ALook(next, i + 1)
                  ELSE InAOnly(next[i])
UseA(next, cur) == IF ~InBTable(next[1]) \/ cur = 103 THEN InATable(next[1])
                   ELSE IF cur = 0 THEN ALook(next, 1) ELSE FALSE

AIdx(r) == IF r = 241 THEN 102 ELSE IF r = 242 THEN 97 ELSE IF r = 243 THEN 96 ELSE IF r = 244 THEN 101
           ELSE IF InAB(r) THEN r - 32 ELSE IF InAOnly(r) THEN r + 64 ELSE -1
BIdx(r) == IF r = 241 THEN 102 ELSE IF r = 242 THEN 97 ELSE IF r = 243 THEN 96 ELSE IF r = 244 THEN 100
           ELSE IF r \in 32..127 THEN r - 32 ELSE -1

\* getCodeIndexList: returns <<>> for "nil" (unencodable)
RECURSIVE Enc(_, _, _, _)
Enc(content, i, cur, acc) ==     \* i one based
  IF i > Len(content) THEN acc
  ELSE LET next == SubSeq(content, i, Len(content))
           sw(start, code) == IF cur = start THEN <<>> ELSE IF cur = 0 THEN <<start>> ELSE <<code>>
       IN IF UseC(next, cur)
          THEN IF content[i] = 241 THEN Enc(content, i + 1, 105, acc \o sw(105, 99) \o <<102>>)
               ELSE Enc(content, i + 2, 105, acc \o sw(105, 99) \o <<(content[i] - 48) * 10 + (content[i + 1] - 48)>>)
          ELSE IF UseA(next, cur)
          THEN IF AIdx(content[i]) < 0 THEN <<>> ELSE Enc(content, i + 1, 103, acc \o sw(103, 101) \o <<AIdx(content[i])>>)
          ELSE IF BIdx(content[i]) < 0 THEN <<>> ELSE Enc(content, i + 1, 104, acc \o sw(104, 100) \o <<BIdx(content[i])>>)

Encode(content) == Enc(content, 1, 0, <<>>)
=============================================================================
