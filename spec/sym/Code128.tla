------------------------------ MODULE Code128 ------------------------------
(***************************************************************************)
(* Reference reader and validity conditions for Code 128 (C05, C14).       *)
(* The decoder is a state machine over the symbol values: state = current  *)
(* code set, pending shift, output so far.                                 *)
(***************************************************************************)
EXTENDS SymCommon, Tables1D

Pat(v) == Expand(C128Widths[v + 1])
PatNums == [i \in 1..106 |-> Num(Pat(i - 1))]         \* values 0..105 (11 modules); 106 = stop (13 modules)
PatIdx == Invert(PatNums, 2048)
Stop13 == Pat(106)

ASSUME /\ \A v \in 0..105 : Len(Pat(v)) = 11 /\ Sum([k \in 1..3 |-> C128Widths[v + 1][2 * k - 1]]) % 2 = 0
       /\ Len(Stop13) = 13 /\ Distinct(PatNums)

FNC(k) == 240 + k     \* U+00F1..U+00F4, the library's placeholders for FNC1..FNC4

\* one step of the decoder: st = [set, shift, out, ok]
DecStep(st, v) ==
  LET cur == IF st.shift # "" THEN st.shift ELSE st.set
      emit(r) == [st EXCEPT !.out = Append(@, r), !.shift = ""]
  IN IF ~st.ok THEN st
     ELSE IF v > 102 THEN [st EXCEPT !.ok = FALSE]                    \* a start character inside the data
     ELSE IF cur = "C" THEN
            IF v < 100 THEN [st EXCEPT !.out = @ \o <<48 + (v \div 10), 48 + (v % 10)>>]
            ELSE IF v = 100 THEN [st EXCEPT !.set = "B"]
            ELSE IF v = 101 THEN [st EXCEPT !.set = "A"]
            ELSE emit(FNC(1))
     ELSE IF v < 64 THEN emit(32 + v)
     ELSE IF v < 96 THEN emit(IF cur = "A" THEN v - 64 ELSE v + 32)
     ELSE IF v = 96 THEN emit(FNC(3))
     ELSE IF v = 97 THEN emit(FNC(2))
     ELSE IF v = 98 THEN (IF st.shift # "" THEN [st EXCEPT !.ok = FALSE]
                          ELSE [st EXCEPT !.shift = IF cur = "A" THEN "B" ELSE "A"])
     ELSE IF v = 99 THEN [st EXCEPT !.set = "C", !.shift = ""]
     ELSE IF v = 100 THEN (IF cur = "B" THEN emit(FNC(4)) ELSE [st EXCEPT !.set = "B", !.shift = ""])
     ELSE IF v = 101 THEN (IF cur = "A" THEN emit(FNC(4)) ELSE [st EXCEPT !.set = "A", !.shift = ""])
     ELSE emit(FNC(1))

Decode(body) ==   \* body = start character followed by the data characters
  LET set0 == CASE body[1] = 103 -> "A" [] body[1] = 104 -> "B" [] body[1] = 105 -> "C" [] OTHER -> ""
  IN IF set0 = "" THEN [set |-> "", shift |-> "", out |-> <<>>, ok |-> FALSE]
     ELSE FoldLeft(DecStep, [set |-> set0, shift |-> "", out |-> <<>>, ok |-> TRUE], Tail(body))

CheckValue(body) == (body[1] + Sum([i \in 1..(Len(body) - 1) |-> i * body[i + 1]])) % 103

\* Read(m, withCheck): structure, check character, decoded runes
Read(m, withCheck) ==
  LET n == Len(m)
      k == (n - 13) \div 11
  IN IF n < 13 + 11 * (IF withCheck THEN 3 ELSE 2) \/ (n - 13) % 11 # 0 THEN Fail("length")
     ELSE IF Slice(m, n - 12, 13) # Stop13 THEN Fail("stop")
     ELSE LET vals == [i \in 1..k |-> PatIdx[Num(Slice(m, 11 * (i - 1) + 1, 11))]]
          IN IF \E i \in 1..k : vals[i] < 0 THEN Fail("pattern")
             ELSE LET body == IF withCheck THEN Front(vals) ELSE vals
                      d == Decode(body)
                  IN IF withCheck /\ vals[k] # CheckValue(body) THEN Fail("check")
                     ELSE IF ~d.ok \/ d.shift # "" THEN Fail("decode")
                     ELSE [ok |-> TRUE, why |-> "", runes |-> d.out, cs |-> CheckValue(body), vals |-> vals]

Representable(runes) == Len(runes) \in 1..80 /\ \A i \in 1..Len(runes) : runes[i] \in 0..127 \/ runes[i] \in 241..244
=============================================================================
