-------------------------------- MODULE PDFDims --------------------------------
(***************************************************************************)
(* Encoder model: transcription of pdf417.calcDimensions /                 *)
(* calculateNumberOfRows / getPadding and of the dimension test in         *)
(* EncodeWithColor.  The chooser walks the column counts 2..30, computes   *)
(* the rows each would need, and keeps a candidate depending on a          *)
(* comparison of aspect ratios (floating point in the code; here exact     *)
(* rational arithmetic by cross-multiplication; the code's first           *)
(* comparison divides by zero rows, i.e. +Inf, modelled by the flag inf).  *)
(* Never used to judge the real encoder's shape choice (any shape within   *)
(* the limits with less than a row of padding is acceptable);              *)
(* MC_PDFDims checks the DESIGN: whenever some admissible shape exists the *)
(* chooser finds an admissible one, otherwise the encoder refuses.         *)
(***************************************************************************)
EXTENDS Integers, Sequences, SequencesExt

Abs(a) == IF a < 0 THEN -a ELSE a

Rows(m, k, c) == LET r == ((m + 1 + k) \div c) + 1 IN IF c * r >= m + 1 + k + c THEN r - 1 ELSE r

\* st = [cols, rows, rn, rd, inf]: ratio = rn/rd, or +Inf
Further(an, ad, ainf, bn, bd, binf) ==      \* |a - 3| > |b - 3|
  IF binf THEN FALSE ELSE IF ainf THEN TRUE ELSE Abs(an - 3 * ad) * bd > Abs(bn - 3 * bd) * ad

ChooseStep(m, k, st, c) ==
  IF st.stop THEN st
  ELSE LET r == Rows(m, k, c) IN
       IF r < 2 THEN [st EXCEPT !.stop = TRUE]
       ELSE IF r > 30 THEN st
       ELSE LET nn == 17 * st.cols + 69            \* the code computes the ratio of the PREVIOUS candidate
                nd == st.rows * 2
                ninf == st.rows = 0
            IN IF st.rows # 0 /\ Further(nn, nd, ninf, st.rn, st.rd, st.inf) THEN st
               ELSE [st EXCEPT !.cols = c, !.rows = r, !.rn = nn, !.rd = nd, !.inf = ninf]

Choose(m, k) ==
  LET st == FoldLeft(LAMBDA s, c : ChooseStep(m, k, s, c), [cols |-> 0, rows |-> 0, rn |-> 0, rd |-> 1, inf |-> FALSE, stop |-> FALSE], [i \in 1..29 |-> i + 1])
  IN IF st.rows = 0 /\ Rows(m, k, 2) < 2 THEN [cols |-> 2, rows |-> 2] ELSE [cols |-> st.cols, rows |-> st.rows]

Accepted(m, k) == LET d == Choose(m, k) IN d.cols \in 2..30 /\ d.rows \in 2..30
PadCount(m, k, c) == LET t == (m + k + 1) % c IN IF t > 0 THEN c - t ELSE 0
\* an admissible shape: rows and columns within 2..30 holding the m data words, the length descriptor and the k check words
Admissible(m, k) == \E c \in 2..30 : LET r == (m + 1 + k + c - 1) \div c IN r \in 2..30 \/ (r < 2 /\ c = 2)
=============================================================================
