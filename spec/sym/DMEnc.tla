--------------------------------- MODULE DMEnc ---------------------------------
(***************************************************************************)
(* Encoder model: transcription of datamatrix.encodeText (ASCII            *)
(* encodation: digit pairs 130..229, upper shift 235 for bytes above 127,  *)
(* byte + 1 otherwise) and datamatrix.addPadding (129, then 253-state      *)
(* randomised pads).  MC_DM checks the DESIGN (the reader automaton of     *)
(* DM.tla inverts it for all class strings and every pad run); TraceEnc    *)
(* compares the real functions with it over the same state space.          *)
(***************************************************************************)
EXTENDS DM

RECURSIVE EncText(_, _)
EncText(bytes, k) == IF k > Len(bytes) THEN <<>>
                     ELSE IF IsDigit(bytes[k]) /\ k < Len(bytes) /\ IsDigit(bytes[k + 1])
                          THEN <<(bytes[k] - 48) * 10 + (bytes[k + 1] - 48) + 130>> \o EncText(bytes, k + 2)
                     ELSE IF bytes[k] > 127 THEN <<235, bytes[k] - 127>> \o EncText(bytes, k + 1)
                     ELSE <<bytes[k] + 1>> \o EncText(bytes, k + 1)
RECURSIVE Pad(_, _)
Pad(data, to) == IF Len(data) >= to THEN data
                 ELSE LET R == ((149 * (Len(data) + 1)) % 253) + 1
                          t == 129 + R
                      IN Pad(Append(data, IF t > 254 THEN t - 254 ELSE t), to)
AddPadding(data, to) == IF Len(data) < to THEN Pad(Append(data, 129), to) ELSE data
=============================================================================
