--------------------------------- MODULE PDF417 ---------------------------------
(***************************************************************************)
(* Reference reader for PDF417 symbols (ISO/IEC 15438), properties C04,    *)
(* C12, C13.  px[y+1][x+1] = pixel at column x, row y; every module row is *)
(* two pixel rows high.  Sections: rows (start/stop, cluster patterns, row *)
(* indicators), Reed-Solomon over GF(929), and the compaction automaton    *)
(* (text with its four sub-modes, byte 901/924, numeric 902, shift 913).   *)
(***************************************************************************)
EXTENDS SymCommon, TablesPDF

StartPat == 130728      \* 0x1FEA8, 17 modules
StopPat == 260649       \* 0x3FA29, 18 modules

\* inverse pattern tables (the leading module is always a bar, so 16 bits index the table)
PatIdx == [cl \in 1..3 |-> Invert([i \in 1..929 |-> PDFPatterns[cl][i] - 65536], 65536)]

ModPow(b, e) == FoldLeft(LAMBDA a, i : (a * b) % 929, 1, Iota(e))
RSValid(cw, k) == \A j \in 1..k : FoldLeft(LAMBDA acc, c : (acc * ModPow(3, j) + c) % 929, 0, cw) = 0

------------------------------------------------------------------------------
\* base conversion without big integers: digits little-endian in base B
MulAdd(digs, m, a, B) ==
  LET r == FoldLeft(LAMBDA st, d : <<Append(st[1], (d * m + st[2]) % B), (d * m + st[2]) \div B>>, <<<<>>, a>>, digs)
      c == r[2]
  IN r[1] \o (IF c = 0 THEN <<>> ELSE IF c < B THEN <<c>> ELSE IF c < B * B THEN <<c % B, c \div B>> ELSE <<c % B, (c \div B) % B, c \div (B * B)>>)
FromBase900(cws, B) == FoldLeft(LAMBDA digs, c : MulAdd(digs, 900, c, B), <<>>, cws)
\* five codewords -> six bytes
SixBytes(cws) == LET d == FromBase900(cws, 256) IN Reverse(d \o Rep(0, 6 - Len(d)))
\* up to 15 codewords -> up to 44 digits: decimal expansion must start with the digit 1, which is dropped
NumDigits(cws) == LET d == Reverse(FromBase900(cws, 10))
                  IN IF d = <<>> \/ d[1] # 1 THEN [ok |-> FALSE, out |-> <<>>] ELSE [ok |-> TRUE, out |-> [i \in 1..(Len(d) - 1) |-> 48 + d[i + 1]]]

\* the standard's packing rules (encoder side), inverted by the conversions above (checked in MC_PDF417)
Pack6(bytes) == LET d == FoldLeft(LAMBDA digs, x : MulAdd(digs, 256, x, 900), <<>>, bytes) IN Reverse(d \o Rep(0, 5 - Len(d)))
PackNum(digits) == Reverse(FoldLeft(LAMBDA digs, x : MulAdd(digs, 10, x, 900), <<>>, <<1>> \o digits))

------------------------------------------------------------------------------
\* text compaction: entries >= 0 byte; -1 ps; -2 as; -11 ll (lower); -12 ml (mixed); -13 pl (punct); -14 al (alpha)
TextUp == [i \in 1..26 |-> 64 + i] \o <<32, -11, -12, -1>>
TextLo == [i \in 1..26 |-> 96 + i] \o <<32, -2, -12, -1>>
TextMi == <<48, 49, 50, 51, 52, 53, 54, 55, 56, 57, 38, 13, 9, 44, 58, 35, 45, 46, 36, 47, 43, 37, 42, 61, 94, -13, 32, -11, -14, -1>>
TextPu == <<59, 60, 62, 64, 91, 92, 93, 95, 96, 126, 33, 13, 9, 44, 58, 10, 45, 46, 36, 47, 34, 124, 42, 40, 41, 63, 123, 125, 39, -14>>
SubTable(sub) == CASE sub = "A" -> TextUp [] sub = "L" -> TextLo [] sub = "M" -> TextMi [] sub = "P" -> TextPu
LatchTarget(t) == CASE t = -11 -> "L" [] t = -12 -> "M" [] t = -13 -> "P" [] t = -14 -> "A"

\* one text value; st = [sub, shift ("" = none), out, ok]; last = this is the final value of the run (a trailing ps is padding)
TextStep(st, it) ==
  LET v == it[1]
      last == it[2]
      cur == IF st.shift # "" THEN st.shift ELSE st.sub
      t == SubTable(cur)[v + 1]
  IN IF ~st.ok THEN st
     ELSE IF t >= 0 THEN [st EXCEPT !.out = Append(@, t), !.shift = ""]
     ELSE IF t = -1 THEN (IF st.shift # "" THEN [st EXCEPT !.ok = FALSE] ELSE IF last THEN st ELSE [st EXCEPT !.shift = "P"])
     ELSE IF t = -2 THEN (IF st.shift # "" THEN [st EXCEPT !.ok = FALSE] ELSE [st EXCEPT !.shift = "A"])
     ELSE IF st.shift # "" /\ t # -14 THEN [st EXCEPT !.ok = FALSE]
     ELSE [st EXCEPT !.sub = LatchTarget(t), !.shift = ""]

TextRun(sub, cws, out) ==
  LET vals == FoldLeft(LAMBDA a, c : a \o <<c \div 30, c % 30>>, <<>>, cws)
      r == FoldLeft(TextStep, [sub |-> sub, shift |-> "", out |-> out, ok |-> TRUE], [i \in 1..Len(vals) |-> <<vals[i], i = Len(vals)>>])
  IN r

ByteRun(cws, bmode, out) ==
  LET m == Len(cws)
      groups == IF bmode = 924 THEN m \div 5 ELSE IF m = 0 THEN 0 ELSE (m - 1) \div 5
      packed == FoldLeft(LAMBDA a, g : a \o SixBytes(SubSeq(cws, 5 * (g - 1) + 1, 5 * g)), <<>>, Iota(groups))
      rest == SubSeq(cws, 5 * groups + 1, m)
  IN [ok |-> (bmode = 924 => m % 5 = 0) /\ \A i \in 1..Len(rest) : rest[i] < 256, out |-> out \o packed \o rest]

NumRun(cws, out) ==
  LET m == Len(cws)
      ng == (m + 14) \div 15
      parts == [g \in 1..ng |-> NumDigits(SubSeq(cws, 15 * (g - 1) + 1, IF 15 * g < m THEN 15 * g ELSE m))]
  IN [ok |-> \A g \in 1..ng : parts[g].ok, out |-> FoldLeft(LAMBDA a, g : a \o parts[g].out, out, Iota(ng))]

\* The compaction automaton over the data codewords. st = [mode, bmode, sub, seg, out, ok, raw]
\* seg = pending codewords (< 900) of the current run; raw = TRUE: the next codeword is the byte of a 913 shift
Flush(st) ==
  IF st.seg = <<>> THEN st
  ELSE CASE st.mode = "text" -> LET r == TextRun(st.sub, st.seg, st.out) IN [st EXCEPT !.seg = <<>>, !.out = r.out, !.sub = r.sub, !.ok = st.ok /\ r.ok]
         [] st.mode = "byte" -> LET r == ByteRun(st.seg, st.bmode, st.out) IN [st EXCEPT !.seg = <<>>, !.out = r.out, !.ok = st.ok /\ r.ok]
         [] st.mode = "num"  -> LET r == NumRun(st.seg, st.out) IN [st EXCEPT !.seg = <<>>, !.out = r.out, !.ok = st.ok /\ r.ok]
CwStep(st, c) ==
  IF ~st.ok THEN st
  ELSE IF st.raw THEN [st EXCEPT !.raw = FALSE, !.out = Append(@, c), !.ok = c < 256]
  ELSE IF c >= 0 /\ c < 900 THEN [st EXCEPT !.seg = Append(@, c)]
  ELSE LET f == Flush(st) IN
       IF c = -1 THEN f                                                           \* end of data
       ELSE IF c = 900 THEN [f EXCEPT !.mode = "text", !.sub = "A"]
       ELSE IF c \in {901, 924} THEN [f EXCEPT !.mode = "byte", !.bmode = c]
       ELSE IF c = 902 THEN [f EXCEPT !.mode = "num"]
       ELSE IF c = 913 THEN (IF f.mode = "text" THEN [f EXCEPT !.raw = TRUE] ELSE [f EXCEPT !.ok = FALSE])
       ELSE [f EXCEPT !.ok = FALSE]
Decode(cws) == FoldLeft(CwStep, [mode |-> "text", bmode |-> 0, sub |-> "A", seg |-> <<>>, out |-> <<>>, ok |-> TRUE, raw |-> FALSE], Append(cws, -1))

------------------------------------------------------------------------------
PFail(w) == [ok |-> FALSE, why |-> w]
RowBits(row, from, n) == FoldLeft(LAMBDA a, i : 2 * a + row[from + i], 0, Iota(n))      \* from is zero based

Read(px) ==
  LET h == Len(px)
      w == IF h > 0 THEN Len(px[1]) ELSE 0
  IN IF h < 2 \/ h % 2 # 0 \/ w < 17 * 5 + 1 \/ (w - 1) % 17 # 0 \/ \E y \in 1..h : Len(px[y]) # w THEN PFail("size")
     ELSE IF \E y \in 1..h : \E x \in 1..w : px[y][x] \notin {0, 1} THEN PFail("colours")
     ELSE
     LET R == h \div 2
         C == ((w - 1) \div 17) - 4
         row(r) == px[2 * r + 1]                                              \* r zero based
         pat(r, k) == RowBits(row(r), 17 + 17 * k, 17)                         \* k = 0 left indicator, 1..C data, C+1 right indicator
         val(r, k) == IF pat(r, k) >= 65536 THEN PatIdx[(r % 3) + 1][pat(r, k) - 65536] ELSE -1
         vals == SubSeq([t \in 1..(R * (C + 2)) |-> val((t - 1) \div (C + 2), (t - 1) % (C + 2))], 1, R * (C + 2))
         V(r, k) == vals[r * (C + 2) + k + 1]
     IN IF C < 1 \/ C > 30 \/ R > 90 THEN PFail("size")
        ELSE IF \E r \in 0..(R - 1) : px[2 * r + 1] # px[2 * r + 2] THEN PFail("row-height")
        ELSE IF \E r \in 0..(R - 1) : RowBits(row(r), 0, 17) # StartPat \/ RowBits(row(r), w - 18, 18) # StopPat THEN PFail("start-stop")
        ELSE IF Len(vals) # R * (C + 2) \/ \E t \in 1..Len(vals) : vals[t] < 0 THEN PFail("cluster-pattern")
        ELSE
        LET allcw == FoldLeft(LAMBDA a, r : a \o [k \in 1..C |-> V(r, k)], <<>>, [r \in 1..R |-> r - 1])
            n == allcw[1]
            \* the security level named by the row indicators (rows of cluster 3 on the left, cluster 6 on the right)
            indOK(level) == \A r \in 0..(R - 1) :
                LET a == (R - 1) \div 3
                    b == level * 3 + ((R - 1) % 3)
                    c == C - 1
                    cl == r % 3
                IN /\ V(r, 0) = 30 * (r \div 3) + (IF cl = 0 THEN a ELSE IF cl = 1 THEN b ELSE c)
                   /\ V(r, C + 1) = 30 * (r \div 3) + (IF cl = 0 THEN c ELSE IF cl = 1 THEN a ELSE b)
            levels == {lv \in 0..8 : indOK(lv)}
        IN IF levels = {} THEN PFail("row-indicators")
           ELSE
           LET level == CHOOSE lv \in levels : TRUE
               k == 2 ^ (level + 1)
           IN IF n + k # Len(allcw) \/ n < 1 THEN PFail("length-descriptor")
              ELSE IF ~RSValid(allcw, k) THEN PFail("reed-solomon")
              ELSE LET data == SubSeq(allcw, 2, n)
                       d == Decode(data)
                       npad == Len(SelectSeq(Iota(Len(data)), LAMBDA i : \A j \in i..Len(data) : data[j] = 900))
                   IN IF ~d.ok \/ d.raw THEN PFail("compaction")
                      ELSE [ok |-> TRUE, why |-> "", rows |-> R, cols |-> C, level |-> level, out |-> d.out, ncw |-> n, npad |-> npad,
                            cws |-> allcw]
=============================================================================
