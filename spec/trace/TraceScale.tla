------------------------------ MODULE TraceScale ------------------------------
(***************************************************************************)
(* Monitor-style trace specification for barcode.Scale / ScaleWithFill     *)
(* (C09).  State: the table of barcodes issued so far (handle -> observed  *)
(* projection).  Barcodes are values: a scale event is judged against the  *)
(* table entry of its source, its result becomes a new entry (so chains    *)
(* are judged link by link), and a re-read of any handle must equal its    *)
(* entry.  Pixels are colour classes: 0 background, 1 foreground, 2+k .. a *)
(* stable number per further colour (fills of the chain, other colours).   *)
(***************************************************************************)
EXTENDS Scale, SequencesExt, Json, TLC

Trace == ndJsonDeserialize("trace.ndjson")
N == Len(Trace)

VARIABLES l, bad, tbl
vars == <<l, bad, tbl>>

Init == l = 1 /\ bad = <<>> /\ tbl = <<>>

White == "color.Gray16{65535}"

HasPx(r) == "px" \in DOMAIN r          \* results of 10^9 pixels are recorded without their pixels (projection "outcome")
Entry(r) == [dim |-> r.mdim, w |-> r.w, h |-> r.hh, px |-> IF HasPx(r) THEN r.px ELSE <<>>, content |-> r.content, mkind |-> r.mkind,
             hascs |-> r.hascs, cs |-> r.cs, hasscheme |-> r.hasscheme, sbg |-> r.sbg, reflist |-> r.reflist,
             minx |-> r.minx, miny |-> r.miny]

FirstIndex(s, v) == (CHOOSE i \in 1..Len(s) : s[i] = v /\ \A j \in 1..(i - 1) : s[j] # v) - 1

ScaleWhy(e, s) ==
  LET r == e.res
      fail == MustFail(s.dim, s.w, s.h, e.w, e.hh)
  IN IF r.kind \notin {"ok", "error"} THEN "result-" \o r.kind
     ELSE IF s.dim \notin {1, 2} THEN (IF r.kind = "error" THEN "" ELSE "accepted-unsupported-dimension")
     ELSE IF fail /\ r.kind = "ok" THEN "accepted-too-small-request"
     ELSE IF ~fail /\ r.kind = "error" THEN "refused-fitting-request"
     ELSE IF r.kind = "error" THEN ""
     ELSE LET fillstr == IF "fill" \in DOMAIN e THEN r.fillstr
                         ELSE IF s.hasscheme THEN s.sbg ELSE White
              reflist == s.reflist \o <<fillstr>>
          IN IF r.minx # 0 \/ r.miny # 0 \/ r.w # e.w \/ r.hh # e.hh THEN "bounds"
             ELSE IF r.fillstr # fillstr THEN "default-fill"
             ELSE IF HasPx(r) /\ s.px # <<>> /\ r.reflist # reflist THEN "pixels"      \* a colour that is neither the source's nor the fill
             ELSE IF HasPx(r) /\ s.px # <<>> /\ ~IsScaled(s, e.w, e.hh, FirstIndex(reflist, fillstr), r.px) THEN "pixels"
             ELSE IF r.content # s.content THEN "content"
             ELSE IF r.mkind # s.mkind \/ r.mdim # s.dim THEN "metadata"
             ELSE IF r.hascs # s.hascs \/ r.cs # s.cs THEN "checksum"
             ELSE ""

Why(e) ==
  CASE e.op \in {"synth", "encode"} -> IF e.res.kind = "ok" THEN "" ELSE "source-not-created"
    [] e.op = "scale"  -> IF e.res.kind = "nosource" THEN ""       \* its source was refused earlier (judged there): nothing to scale
                          ELSE IF e.src \in DOMAIN tbl THEN ScaleWhy(e, tbl[e.src]) ELSE "unknown-handle"
    [] e.op = "reread" -> IF e.res.kind = "nosource" THEN ""
                          ELSE IF e.src \in DOMAIN tbl /\ e.res.kind = "ok" /\ Entry(e.res) = tbl[e.src] THEN "" ELSE "barcode-changed"
    [] OTHER -> "unknown-event"

Step ==
  /\ l <= N
  /\ LET e == Trace[l]
         w == Why(e)
     IN /\ bad' = IF w = "" THEN bad ELSE Append(bad, [l |-> l, why |-> w])
        /\ tbl' = IF e.op \in {"synth", "encode", "scale"} /\ e.res.kind = "ok"
                  THEN [h \in (DOMAIN tbl) \cup {e.res.h} |-> IF h = e.res.h THEN Entry(e.res) ELSE tbl[h]]
                  ELSE tbl
  /\ l' = l + 1

Spec == Init /\ [][Step]_vars
\* barcodes are values: an issued entry never changes
Immutable == [][\A h \in DOMAIN tbl : h \in DOMAIN tbl' /\ tbl'[h] = tbl[h]]_vars
Done == l = N + 1 => JsonSerialize("verdict.json", [n |-> l - 1, bad |-> bad])
=============================================================================
