------------------------------- MODULE TraceEnc -------------------------------
(***************************************************************************)
(* Conformance of the real high-level encoders with the encoder models     *)
(* (spec -> code and code -> spec at once): harness/cmd/encdump enumerates  *)
(* the state space of MC_PDFText / MC_AztecHL / MC_Code128 / MC_DM / MC_QREnc / MC_PDFDims / MC_AztecSel - every string   *)
(* up to a length bound over the model's representative alphabet - calls   *)
(* the real pdf417.highlevelEncode / aztec.highlevelEncode /               *)
(* code128.getCodeIndexList through the verif accessors and records what   *)
(* they return.  Each recorded output is compared with what the encoder    *)
(* model (PDFTextEnc, AztecHLEnc, Code128Enc, DMEnc, QREnc) emits for the same string:   *)
(*   equal     -> the code took exactly the model's transition sequence;   *)
(*                the model's RoundTrip invariant (checked by TLC for the  *)
(*                same state space) covers this execution;                 *)
(*   different -> the recorded output is run through the family's decoding *)
(*                automaton: "drift" if it still decodes to the input      *)
(*                (a different but valid choice: never a verdict), else    *)
(*                "hl-wrong".                                              *)
(* "hl-wrong" and a sample of "drift" inputs are then encoded through the  *)
(* public API and read back by the full reference reader; only that can    *)
(* produce a verdict (C03, C04, C05).                                      *)
(***************************************************************************)
EXTENDS Integers, Sequences, Json, TLC

P == INSTANCE PDFTextEnc WITH PadFix <- TRUE
A == INSTANCE AztecHLEnc WITH BSFix <- TRUE
C == INSTANCE Code128Enc
D == INSTANCE DMEnc
Q == INSTANCE QREnc WITH SignFix <- TRUE
PD == INSTANCE PDFDims
S == INSTANCE AztecSel WITH ExactFitOK <- TRUE

Trace == ndJsonDeserialize("trace.ndjson")
N == Len(Trace)

VARIABLES l, bad, same
vars == <<l, bad, same>>
Init == l = 1 /\ bad = <<>> /\ same = 0

Tag(e) ==
  CASE e.sym = "pdf" ->
         IF ~e.ok THEN "hl-wrong"
         ELSE IF e.out = P!HighLevel(e.content) THEN ""
         ELSE LET d == P!Decode(e.out) IN IF d.ok /\ ~d.raw /\ d.out = e.content THEN "drift" ELSE "hl-wrong"
    [] e.sym = "aztec" ->
         IF ~e.ok THEN "hl-wrong"
         ELSE IF e.content = <<>> THEN (IF e.out = <<>> THEN "" ELSE "hl-wrong")
         ELSE IF e.out = A!ToBits(e.content) THEN ""
         ELSE LET d == A!Decode(e.out, 12) IN IF d.ok /\ d.out = e.content /\ d.used = Len(e.out) THEN "drift" ELSE "hl-wrong"
    [] e.sym = "c128" ->
         LET m == C!Encode(e.content)
             rep == C!Representable(e.content)
         IN IF e.content = <<>> THEN ""                          \* the entry points refuse the empty string before choosing code sets
            ELSE IF ~e.ok THEN (IF rep THEN "hl-wrong" ELSE "")
            ELSE IF ~rep THEN "hl-wrong"                         \* accepted an unencodable rune
            ELSE IF e.out = m THEN ""
            ELSE LET d == C!Decode(e.out) IN IF e.out # <<>> /\ d.ok /\ d.shift = "" /\ d.out = e.content THEN "drift" ELSE "hl-wrong"
    [] e.sym = "dm" ->       \* out = addPadding(encodeText(content), len + pad)
         LET cw == D!EncText(e.content, 1) IN
         IF ~e.ok THEN "hl-wrong"
         ELSE IF e.out = D!AddPadding(cw, Len(cw) + e.pad) THEN ""
         ELSE LET a == D!Ascii(e.out) IN IF a.ok /\ ~a.shift /\ a.out = e.content /\ (a.pad <=> e.pad > 0) THEN "drift" ELSE "hl-wrong"
    [] e.sym = "qr" ->       \* out = data bit stream, v = version chosen, p = <<level, API mode>>
         LET rep == Q!Representable(e.content, e.p[1], e.p[2]) IN
         IF ~e.ok THEN (IF rep THEN "hl-wrong" ELSE "")
         ELSE IF ~rep THEN "hl-wrong"
         ELSE LET m == Q!Enc(e.content, e.p[1], e.p[2]) IN
              IF e.out = m.bits /\ e.v = m.v THEN ""
              ELSE IF e.v \in 1..40 /\ Len(e.out) = 8 * Q!DataCW(e.v, e.p[1])
                      /\ LET p == Q!Parse(e.out, e.v, 0, <<>>, <<>>) IN p.ok /\ p.out = e.content
                   THEN "drift" ELSE "hl-wrong"
    [] e.sym = "pdfdims" ->  \* the shape calcDimensions returns for m data codewords and k check codewords
         LET d == PD!Choose(e.m, e.k)
             acc == e.cols \in 2..30 /\ e.rows \in 2..30
             pad == PD!PadCount(e.m, e.k, e.cols)
         IN IF e.cols = d.cols /\ e.rows = d.rows THEN ""
            ELSE IF acc # PD!Admissible(e.m, e.k) THEN "hl-wrong"
            ELSE IF acc /\ ~(pad < e.cols /\ (e.m + 1 + e.k + pad = e.rows * e.cols \/ (e.rows = 2 /\ e.cols = 2 /\ e.m + 1 + e.k + pad <= 4))) THEN "hl-wrong"
            ELSE "drift"
    [] e.sym = "azsel" ->    \* the size aztec.Encode chose (or its refusal) for payload e.content, p = <<percentage, layer request>>, given the recorded
                             \* high-level bit stream (hln bits packed into the bytes hlb)
         LET bits == SubSeq([i \in 1..e.hln |-> (e.hlb[((i - 1) \div 8) + 1] \div 2 ^ (7 - ((i - 1) % 8))) % 2], 1, e.hln)
             d == S!Decode(bits, 12)
         IN IF e.hln > 0 /\ ~(d.ok /\ d.out = e.content /\ d.used = e.hln) THEN "hl-wrong"
            ELSE LET r == S!Select(bits, e.p[1], e.p[2])
                 IN IF e.kind = "ok" /\ r.ok /\ e.w = S!SymbolSize(r.layers, r.compact) THEN ""
                    ELSE IF e.kind = "error" /\ ~r.ok THEN ""
                    ELSE "drift"
    [] OTHER -> "unknown-event"

Step ==
  /\ l <= N
  /\ LET t == Tag(Trace[l])
     IN /\ bad' = IF t = "" THEN bad ELSE Append(bad, [l |-> l, why |-> t])
        /\ same' = IF t = "" THEN same + 1 ELSE same
  /\ l' = l + 1

Spec == Init /\ [][Step]_vars
Done == l = N + 1 => JsonSerialize("verdict.json", [n |-> l - 1, bad |-> bad, same |-> same])
=============================================================================
