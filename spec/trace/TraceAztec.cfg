SPECIFICATION Spec
INVARIANT Done
PROPERTY MemoStable
CHECK_DEADLOCK FALSE
