---------------------------- MODULE TraceBitList ----------------------------
(***************************************************************************)
(* Monitor-style trace specification for utils.BitList (C18).  Every line   *)
(* of trace.ndjson is one call on a real BitList object, with arguments,   *)
(* return value and (when "full") the complete observable state.  The      *)
(* abstract state (one bit sequence per object) is advanced with the       *)
(* operators of BitList.tla; a call whose logged return value / length /   *)
(* state is not what BitList.tla prescribes is appended to `bad`.          *)
(***************************************************************************)
EXTENDS Integers, Sequences, SequencesExt, Json, TLC

Trace == ndJsonDeserialize("trace.ndjson")
N == Len(Trace)

VARIABLES l, bad, objs
vars == <<l, bad, objs>>

BL == INSTANCE BitList WITH bits <- <<>>, last <- <<>>, MaxLen <- 0, NewSizes <- {}, BitsArgs <- {},
                            ByteArgs <- {}, BitRuns <- {}

Init == l = 1 /\ bad = <<>> /\ objs = <<>>     \* objs: object id -> bit sequence (as a function)

Cur(o) == IF o \in DOMAIN objs THEN objs[o] ELSE <<>>
Put(o, s) == [x \in (DOMAIN objs) \cup {o} |-> IF x = o THEN s ELSE objs[x]]

\* expected successor state and return value of a call
Expected(e) ==
  LET s == Cur(e.obj)
      a == e.a
  IN CASE e.call = "New"          -> [ok |-> TRUE, s |-> BL!AfterNew(a[1]), ret |-> <<>>]
       [] e.call = "AddBit"       -> [ok |-> TRUE, s |-> BL!AfterAddBit(s, a), ret |-> <<>>]
       [] e.call = "AddBits"      -> [ok |-> TRUE, s |-> BL!AfterAddBits(s, a[1], a[2]), ret |-> <<>>]
       [] e.call = "AddByte"      -> [ok |-> TRUE, s |-> BL!AfterAddByte(s, a[1]), ret |-> <<>>]
       [] e.call = "AddByteN"     -> [ok |-> TRUE, s |-> BL!AfterAddByteN(s, a[1], a[2]), ret |-> <<>>]
       [] e.call = "SetBit"       -> IF a[1] < Len(s) THEN [ok |-> TRUE, s |-> BL!AfterSetBit(s, a[1], a[2]), ret |-> <<>>]
                                                      ELSE [ok |-> FALSE, s |-> s, ret |-> <<>>]
       [] e.call = "GetBit"       -> IF a[1] < Len(s) THEN [ok |-> TRUE, s |-> s, ret |-> <<s[a[1] + 1]>>]
                                                      ELSE [ok |-> FALSE, s |-> s, ret |-> <<>>]
       [] e.call = "Len"          -> [ok |-> TRUE, s |-> s, ret |-> <<Len(s)>>]
       [] e.call = "GetBytes"     -> [ok |-> TRUE, s |-> s, ret |-> BL!Pack8(s)]
       [] e.call = "IterateBytes" -> [ok |-> TRUE, s |-> s, ret |-> BL!Pack8(s)]
       [] OTHER                   -> [ok |-> FALSE, s |-> s, ret |-> <<>>]

Why(e, x) ==
  IF e.op # "bl" THEN "unknown-event"
  ELSE IF ~x.ok THEN "outside-domain-or-unknown-call"
  ELSE IF e.res.kind # "ok" THEN "result-" \o e.res.kind
  ELSE IF e.res.len # Len(x.s) THEN "len"
  ELSE IF e.res.ret # x.ret THEN "ret"
  ELSE IF e.full /\ e.res.bits # x.s THEN "state"
  ELSE ""

Step ==
  /\ l <= N
  /\ LET e == Trace[l]
         x == IF e.op = "bl" THEN Expected(e) ELSE [ok |-> FALSE, s |-> <<>>, ret |-> <<>>]
         w == Why(e, x)
     IN /\ bad' = IF w = "" THEN bad ELSE Append(bad, [l |-> l, why |-> w])
        /\ objs' = IF e.op # "bl" THEN objs
                   ELSE IF e.res.kind = "ok" /\ e.full THEN Put(e.obj, e.res.bits)   \* re-synchronise on a full observation
                   ELSE Put(e.obj, x.s)
  /\ l' = l + 1

Spec == Init /\ [][Step]_vars

Done == l = N + 1 => JsonSerialize("verdict.json", [n |-> l - 1, bad |-> bad])
=============================================================================
