-------------------------------- MODULE TraceHist --------------------------------
(***************************************************************************)
(* Monitor-style trace specification binding Barcode.tla (C15) to recorded *)
(* histories: long sequences of encodes across all symbologies in one      *)
(* process, re-reads of earlier handles, mutations of the byte buffers     *)
(* that were passed to aztec.Encode, and the same encodes performed by     *)
(* freshly started processes ("oneshot").  State as in Barcode.tla: tbl    *)
(* (handle -> observation), memo (function learnt so far from arguments to *)
(* observation), mutated (handles whose input buffer was changed later).   *)
(***************************************************************************)
EXTENDS Integers, Sequences, FiniteSets, Json, TLC

Trace == ndJsonDeserialize("trace.ndjson")
N == Len(Trace)

VARIABLES l, bad, tbl, memo, mutated
vars == <<l, bad, tbl, memo, mutated>>
Init == l = 1 /\ bad = <<>> /\ tbl = <<>> /\ memo = {} /\ mutated = {}

Obs(r) == IF r.kind = "ok" THEN <<"ok", r.minx, r.miny, r.w, r.hh, r.pxdigest, r.content, r.mkind, r.mdim, r.model, r.hascs, r.cs, r.hasscheme, r.sfg, r.sbg, r.smodel>>
          ELSE <<r.kind>>
Key(e) == <<e.sym, e.api, e.content, e.p, e.skey>>

Tags(e) ==
  CASE e.op = "encode" ->
         (IF \E m \in memo : m.k = Key(e) /\ m.v # Obs(e.res) THEN <<"nondeterministic">> ELSE <<>>)
         \o (IF e.sym = "aztec" /\ e.res.kind \in {"ok", "error"} /\ ~e.res.inputsame THEN <<"input-modified">> ELSE <<>>)
    [] e.op = "oneshot" ->
         (IF \E m \in memo : m.k = Key(e) /\ m.v # Obs(e.res) THEN <<"fresh-process-differs">> ELSE <<>>)
    [] e.op = "reread" ->
         IF e.res.kind = "nosource" THEN <<>>                    \* the encode of that handle was refused: nothing to re-read
         ELSE IF e.src \notin DOMAIN tbl THEN <<"unknown-handle">>
         ELSE IF Obs(e.res) = tbl[e.src] THEN <<>>
         ELSE IF e.src \in mutated THEN <<"barcode-changed-after-input-mutation">> ELSE <<"barcode-changed">>
    [] e.op = "mutate" -> IF e.res.kind = "done" THEN <<>> ELSE <<"harness-mutate">>
    [] e.op = "poke" -> <<>>          \* a call outside the domain (incomplete colour scheme), made and dropped: only the calls after it are judged
    [] OTHER -> <<"unknown-event">>

Step ==
  /\ l <= N
  /\ LET e == Trace[l]
         t == Tags(e)
     IN /\ bad' = bad \o [i \in 1..Len(t) |-> [l |-> l, why |-> t[i]]]
        /\ memo' = IF e.op \in {"encode", "oneshot"} /\ ~\E m \in memo : m.k = Key(e) THEN memo \cup {[k |-> Key(e), v |-> Obs(e.res)]} ELSE memo
        /\ tbl' = IF e.op = "encode" /\ e.res.kind = "ok" THEN [h \in (DOMAIN tbl) \cup {e.res.h} |-> IF h = e.res.h THEN Obs(e.res) ELSE tbl[h]] ELSE tbl
        /\ mutated' = IF e.op = "mutate" THEN mutated \cup {e.hid} ELSE mutated
  /\ l' = l + 1

Spec == Init /\ [][Step]_vars
\* the learnt function and the handle table are never revised (Barcode!Immutable on the observed history)
Stable == [][memo \subseteq memo' /\ \A h \in DOMAIN tbl : h \in DOMAIN tbl' /\ tbl'[h] = tbl[h]]_vars
Done == l = N + 1 => JsonSerialize("verdict.json", [n |-> l - 1, bad |-> bad])
=============================================================================
