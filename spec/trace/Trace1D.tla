-------------------------------- MODULE Trace1D --------------------------------
(***************************************************************************)
(* Monitor-style trace specification for the six one-dimensional encoders  *)
(* (Code 128, EAN-8/13, Code 39, Code 93, Codabar, 2 of 5) and the 2 of 5  *)
(* check-digit helper.  One event per API call; the enabling condition of  *)
(* the specification's EncodeReturn action is the conjunction of           *)
(*   outcome/acceptance (C10) - reader validity and round trip (C05..C08)  *)
(*   - rendering contract (C11) - checksum value (C14)                     *)
(* and each violated conjunct is recorded in `bad` under its own tag so    *)
(* that every property's check picks exactly its own conjuncts.            *)
(* State: memo = module pattern learnt per argument tuple (colour scheme   *)
(* excluded): the pattern must not depend on the scheme nor on history;    *)
(* seen = Code 128 symbol values decoded so far (coverage, reported).      *)
(***************************************************************************)
EXTENDS SymCommon, Contract, Json, TLC

C128 == INSTANCE Code128
EAN == INSTANCE EAN
C39 == INSTANCE Code39
CB == INSTANCE Codabar

Trace == ndJsonDeserialize("trace.ndjson")
N == Len(Trace)

VARIABLES l, bad, memo, seen
vars == <<l, bad, memo, seen>>

Init == l = 1 /\ bad = <<>> /\ memo = {} /\ seen = {}

P(e, i) == IF i <= Len(e.p) THEN e.p[i] ELSE 0
HasPx(e) == "px" \in DOMAIN e.res

\* reader result, expected runes, expected Content() bytes, expected kind, representable, dontcare, hascs, expected cs
Judge(e) ==
  LET m == IF e.res.kind = "ok" /\ HasPx(e) /\ Len(e.res.px) >= 1 THEN e.res.px[1] ELSE <<>>
  IN CASE e.sym = "c128" ->
            LET wc == e.api \in {"Encode", "EncodeWithColor"}
                rd == C128!Read(m, wc)
            IN [rd |-> rd, runes |-> e.runes, content |-> e.content, kind |-> "Code 128", rep |-> C128!Representable(e.runes),
                dontcare |-> FALSE, hascs |-> wc, cs |-> rd.cs]
       [] e.sym = "ean" ->
            LET rd == EAN!Read(m) IN
            [rd |-> rd, runes |-> EAN!Completed(e.content), content |-> EAN!Completed(e.content),
             kind |-> IF Len(EAN!Completed(e.content)) = 8 THEN "EAN 8" ELSE "EAN 13", rep |-> EAN!Representable(e.content),
             dontcare |-> FALSE, hascs |-> TRUE, cs |-> rd.cs]
       [] e.sym = "c39" ->
            LET rd == C39!Read39(m, P(e, 1) = 1, P(e, 2) = 1) IN
            [rd |-> rd, runes |-> e.runes, content |-> IF rd.ok THEN Utf8(rd.spelled) ELSE <<>>, kind |-> "Code 39",
             rep |-> C39!Representable39(e.runes, P(e, 2) = 1), dontcare |-> FALSE, hascs |-> TRUE, cs |-> rd.cs]
       [] e.sym = "c93" ->
            LET rd == C39!Read93(m, P(e, 1) = 1, P(e, 2) = 1) IN
            [rd |-> rd, runes |-> e.runes, content |-> IF rd.ok THEN Utf8(rd.spelled) ELSE <<>>, kind |-> "Code 93",
             rep |-> C39!Representable93(e.runes, P(e, 2) = 1), dontcare |-> C39!DontCare93(e.runes, P(e, 2) = 1), hascs |-> FALSE, cs |-> -1]
       [] e.sym = "codabar" ->
            [rd |-> CB!ReadCodabar(m), runes |-> e.runes, content |-> e.content, kind |-> "Codabar",
             rep |-> CB!RepresentableCodabar(e.runes), dontcare |-> FALSE, hascs |-> FALSE, cs |-> -1]
       [] e.sym = "25" ->
            [rd |-> CB!Read25(m, P(e, 1) = 1), runes |-> e.content, content |-> e.content,
             kind |-> IF P(e, 1) = 1 THEN "2 of 5 (interleaved)" ELSE "2 of 5",
             rep |-> CB!Representable25(e.content, P(e, 1) = 1), dontcare |-> FALSE, hascs |-> FALSE, cs |-> -1]

Known(e) == e.op = "encode" /\ e.sym \in {"c128", "ean", "c39", "c93", "codabar", "25"}

EncodeTags(e) ==
  LET j == Judge(e)
      r == e.res
  IN OutcomeTags(e) \o AcceptTags(e, j.rep, j.dontcare)
     \o (IF r.kind # "ok" \/ ~HasPx(e) THEN <<>>
         ELSE (IF ~j.rd.ok THEN <<"structure-" \o j.rd.why>>
                                    \* the check character drawn is not the one the data characters demand: that is also C14's clause
                                    \* "when the symbol draws a check character, it is the one with that value"
                                    \o (IF j.rd.why = "check" /\ j.hascs THEN <<"cs">> ELSE <<>>)
               ELSE (IF j.rd.runes # j.runes THEN <<"decode">> ELSE <<>>)
                    \o (IF r.content # j.content THEN <<"content">> ELSE <<>>)
                    \o (IF j.hascs /\ (~r.hascs \/ r.cs # j.cs) THEN <<"cs">> ELSE <<>>))
              \o ContractTags(e, Len(r.px[1]), 1, j.kind, 1)
              \o (IF \E x \in memo : x.k = PatternKey(e) /\ x.v # r.pxdigest THEN <<"pattern-depends-on-scheme-or-history">> ELSE <<>>))

AddCheckSumTags(e) ==
  LET ok == Len(e.content) >= 1 /\ \A i \in 1..Len(e.content) : IsDigit(e.content[i])
  IN IF e.res.kind \notin {"ok", "error"} THEN <<"outcome-" \o e.res.kind>>
     ELSE IF ok /\ e.res.kind = "error" THEN <<"reject-representable">>
     ELSE IF ~ok /\ e.res.kind = "ok" THEN <<"accept-unrepresentable">>
     ELSE IF ok /\ e.res.out # Append(e.content, 48 + CB!CheckDigit25([i \in 1..Len(e.content) |-> e.content[i] - 48])) THEN <<"checkdigit">>
     ELSE <<>>

\* compact acceptance table of EAN-8 (exhaustive sweeps): entry k describes the 7-digit prefix a[1] + k - 1
SweepTags(e) ==
  LET start == e.a[1]
      n == e.a[2]
      chk(p) == EAN!Check([i \in 1..7 |-> (p \div (10 ^ (7 - i))) % 10])
  IN IF e.res.kind # "ok" THEN <<"outcome-" \o e.res.kind>>
     ELSE IF Len(e.res.app) # n \/ Len(e.res.mask) # n THEN <<"sweep-shape">>
     ELSE (IF \E k \in 1..n : e.res.app[k] # chk(start + k - 1) THEN <<"sweep-check-digit">> ELSE <<>>)
          \o (IF \E k \in 1..n : e.res.mask[k] # 2 ^ chk(start + k - 1) THEN <<"sweep-acceptance">> ELSE <<>>)

Tags(e) == IF Known(e) THEN EncodeTags(e) ELSE IF e.op = "addchecksum" THEN AddCheckSumTags(e)
           ELSE IF e.op = "eansweep" THEN SweepTags(e) ELSE <<"unknown-event">>

Step ==
  /\ l <= N
  /\ LET e == Trace[l]
         t == Tags(e)
     IN /\ bad' = bad \o [i \in 1..Len(t) |-> [l |-> l, why |-> t[i]]]
        /\ memo' = IF Known(e) /\ e.res.kind = "ok" /\ HasPx(e) /\ ~\E x \in memo : x.k = PatternKey(e)
                   THEN memo \cup {[k |-> PatternKey(e), v |-> e.res.pxdigest]} ELSE memo
        /\ seen' = IF Known(e) /\ e.sym = "c128" /\ e.res.kind = "ok" /\ HasPx(e) /\ Judge(e).rd.ok
                   THEN seen \cup {Judge(e).rd.vals[i] : i \in 1..Len(Judge(e).rd.vals)} ELSE seen
  /\ l' = l + 1

Spec == Init /\ [][Step]_vars
\* what has been learnt is never revised
MemoStable == [][memo \subseteq memo']_vars
Done == l = N + 1 => JsonSerialize("verdict.json", [n |-> l - 1, bad |-> bad, seen |-> SetToSeq(seen)])
=============================================================================
