SPECIFICATION Spec
INVARIANT Done
PROPERTY Stable
CHECK_DEADLOCK FALSE
