SPECIFICATION Spec
INVARIANT Done
CHECK_DEADLOCK FALSE
