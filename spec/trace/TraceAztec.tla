------------------------------- MODULE TraceAztec -------------------------------
(* Monitor-style trace specification for aztec.Encode / EncodeWithColor: outcome and two-sided acceptance (C10), structure    *)
(* and round trip through the reference reader of Aztec.tla incl. "layer request honoured exactly" (C03), check words >=      *)
(* requested percentage of the data bits (C12), automatic size is minimal: an explicit request for a smaller symbol with the  *)
(* same payload and percentage is refused (C13, a property of pairs of events joined through the state variable `auto`),     *)
(* rendering contract (C11), input buffer untouched (C15).                                                                     *)
EXTENDS SymCommon, Contract, Json, TLC

AZ == INSTANCE Aztec

Trace == ndJsonDeserialize("trace.ndjson")
N == Len(Trace)

VARIABLES l, bad, memo, seen, auto, rdv
vars == <<l, bad, memo, seen, auto, rdv>>
None == [ok |-> FALSE, why |-> "none"]
Init == l = 1 /\ bad = <<>> /\ memo = {} /\ seen = {} /\ auto = {} /\ rdv = None

P(e, i) == IF i <= Len(e.p) THEN e.p[i] ELSE 0
HasPx(e) == "px" \in DOMAIN e.res
Known(e) == e.op = "encode" /\ e.sym = "aztec"

EncodeTags(e, rd) ==
  LET r == e.res
      pct == P(e, 1)
      req == P(e, 2)
      nb == Len(e.content)
  IN IF pct < 0 THEN <<>>                          \* negative percentages are outside every property's domain
     ELSE OutcomeTags(e)
     \o (IF r.kind = "error" /\ AZ!MustAccept(e.content, pct, req) THEN <<"reject-representable">>
         ELSE IF r.kind = "ok" /\ AZ!MustReject(nb, pct, req) THEN <<"accept-unrepresentable">> ELSE <<>>)
     \o (IF r.kind \in {"ok", "error"} /\ ~r.inputsame THEN <<"input-modified">> ELSE <<>>)
     \o (IF r.kind = "ok" /\ req # 0 /\ \E a \in auto : a.k = <<e.content, pct>> /\ r.w < a.n THEN <<"auto-not-minimal">> ELSE <<>>)
     \o (IF r.kind # "ok" THEN <<>>
         ELSE (IF ~HasPx(e) THEN <<>>
               ELSE (IF ~rd.ok THEN <<"structure-" \o rd.why>>
                     ELSE (IF rd.out # e.content THEN <<"decode">> ELSE <<>>)
                          \o (IF req < 0 /\ ~(rd.compact /\ rd.layers = -req) THEN <<"layers-not-honoured">> ELSE <<>>)
                          \o (IF req > 0 /\ ~(~rd.compact /\ rd.layers = req) THEN <<"layers-not-honoured">> ELSE <<>>)
                          \o (IF (rd.nw - rd.nd) * rd.w < (rd.used * pct) \div 100 THEN <<"ecc-percent">> ELSE <<>>)
                    )
                    \o (IF r.content # e.content THEN <<"content">> ELSE <<>>)
                    \o ContractTags(e, r.w, r.w, "Aztec", 2)
                    \o (IF \E x \in memo : x.k = PatternKey(e) /\ x.v # r.pxdigest THEN <<"pattern-depends-on-scheme-or-history">> ELSE <<>>)))

\* Two steps per event: first the image is read (once; the reader's result becomes part of the state), then it is judged.
NeedsRead(e) == Known(e) /\ e.res.kind = "ok" /\ HasPx(e)
ReadStep ==
  /\ l <= N /\ rdv = None /\ NeedsRead(Trace[l])
  /\ rdv' = AZ!Read(Trace[l].res.px)
  /\ UNCHANGED <<l, bad, memo, seen, auto>>
JudgeStep ==
  /\ l <= N /\ (rdv # None \/ ~NeedsRead(Trace[l]))
  /\ rdv' = None
  /\ LET e == Trace[l]
         rd == IF rdv = None THEN [ok |-> FALSE, why |-> "no-pixels"] ELSE rdv
         t == IF Known(e) THEN EncodeTags(e, rd) ELSE <<"unknown-event">>
     IN /\ bad' = bad \o [i \in 1..Len(t) |-> [l |-> l, why |-> t[i]]]
        /\ memo' = IF Known(e) /\ e.res.kind = "ok" /\ HasPx(e) /\ ~\E x \in memo : x.k = PatternKey(e)
                   THEN memo \cup {[k |-> PatternKey(e), v |-> e.res.pxdigest]} ELSE memo
        /\ seen' = IF rd.ok THEN seen \cup {<<rd.compact, rd.layers, rd.w>>} ELSE seen
        /\ auto' = IF Known(e) /\ e.res.kind = "ok" /\ P(e, 2) = 0 THEN auto \cup {[k |-> <<e.content, P(e, 1)>>, n |-> e.res.w]} ELSE auto
  /\ l' = l + 1

Step == ReadStep \/ JudgeStep
Spec == Init /\ [][Step]_vars
MemoStable == [][memo \subseteq memo' /\ auto \subseteq auto']_vars
Done == l = N + 1 => JsonSerialize("verdict.json", [n |-> l - 1, bad |-> bad, seen |-> SetToSeq(seen)])
=============================================================================
