SPECIFICATION Spec
INVARIANT Done
PROPERTY AppendOnly
CHECK_DEADLOCK FALSE
