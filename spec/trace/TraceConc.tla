-------------------------------- MODULE TraceConc --------------------------------
(***************************************************************************)
(* Monitor-style trace specification binding RSCache.tla and Pipelines.tla *)
(* (C16) to executions recorded with the verif hooks.  Hook events carry a *)
(* global sequence number taken inside the hook (events under an encoder's *)
(* mutex are therefore ordered by that mutex) and the goroutine id.        *)
(* State per Reed-Solomon encoder: holder (goroutine that owns the mutex,  *)
(* 0 = none), clen (cache length), and the length / degree seen at lock    *)
(* time; plus the number of live library goroutines (spawn - exit), the    *)
(* function learnt from job key to observation (concurrent results must    *)
(* equal the result obtained alone), and the order of lock acquisitions    *)
(* (compared with the imposed schedule in schedule-replay runs).           *)
(***************************************************************************)
EXTENDS Integers, Sequences, FiniteSets, Json, TLC

Trace == ndJsonDeserialize("trace.ndjson")
N == Len(Trace)

VARIABLES l, bad, holder, clen, atlock, livegor, memo, acq
vars == <<l, bad, holder, clen, atlock, livegor, memo, acq>>
Init == l = 1 /\ bad = <<>> /\ holder = <<>> /\ clen = <<>> /\ atlock = <<>> /\ livegor = 0 /\ memo = {} /\ acq = <<>>

Get(f, k, d) == IF k \in DOMAIN f THEN f[k] ELSE d
Put(f, k, v) == [x \in (DOMAIN f) \cup {k} |-> IF x = k THEN v ELSE f[x]]
Max2(a, b) == IF a > b THEN a ELSE b

\* RSCache actions as seen through the hooks: Lock, Loop (one append), Return
HookTags(e) ==
  LET hs == Get(holder, e.enc, {})       \* goroutines between rs.locked and rs.unlock on this encoder's cache lock
      n == Get(clen, e.enc, 1)            \* a fresh encoder caches the degree-0 polynomial only
  IN CASE e.ev = "rs.wait" -> <<>>
       \* Several goroutines may be inside at once if the lock admits readers; what RSCache!MutualExclusion demands of the code is that the
       \* cache is only ever CHANGED by a goroutine that is alone inside, and that nobody leaves who did not get in.
       [] e.ev = "rs.locked" -> (IF e.b # n THEN <<"cache-length">> ELSE <<>>) \o (IF e.gid \in hs THEN <<"mutual-exclusion">> ELSE <<>>)
       [] e.ev = "rs.extend" -> (IF hs # {e.gid} THEN <<"mutual-exclusion">> ELSE <<>>)
                                \o (IF e.b # n + 1 \/ e.a # n THEN <<"cache-append-only">> ELSE <<>>)
       [] e.ev = "rs.unlock" -> (IF e.gid \notin hs THEN <<"mutual-exclusion">> ELSE <<>>)
                                \o (IF e.b # n THEN <<"cache-length">> ELSE <<>>)
                                \* a goroutine that extended the cache while inside leaves it long enough for the degree it asked for
                                \o (IF e.gid \in DOMAIN atlock /\ e.b > atlock[e.gid] /\ e.b < e.a + 1 THEN <<"cache-growth">> ELSE <<>>)
       [] e.ev = "go.spawn" -> <<>>
       [] e.ev = "go.exit" -> IF livegor <= 0 THEN <<"goroutine-accounting">> ELSE <<>>
       [] e.ev = "qr.split" -> IF e.a # 8 * e.b THEN <<"pipeline-produced-consumed-mismatch">> ELSE <<>>
       [] OTHER -> <<"unknown-hook">>

Tags(e) ==
  CASE e.op = "hook" -> HookTags(e)
    [] e.op = "cencode" -> (IF \E m \in memo : m.k = e.key /\ m.v # e.digest THEN <<"differs-between-calls">> ELSE <<>>)
    [] e.op = "ref" -> IF \E m \in memo : m.k = e.key /\ m.v # e.digest THEN <<"differs-from-alone">> ELSE <<>>
    [] e.op = "quiesce" -> (IF e.live # 0 THEN <<"goroutine-leak">> ELSE <<>>) \o (IF livegor # 0 THEN <<"goroutine-never-exited">> ELSE <<>>)
                           \o (IF \E k \in DOMAIN holder : holder[k] # {} THEN <<"lock-never-released">> ELSE <<>>)
    [] e.op = "race" -> <<"data-race">>
    [] e.op = "deadlock" -> <<"deadlock">>
    [] e.op = "crash" -> <<"crash">>
    [] e.op = "order" -> IF acq = e.want THEN <<>> ELSE <<"schedule-not-imposed">>
    [] e.op = "rs" -> <<>>                                  \* results of schedule runs are judged by TraceGF
    [] OTHER -> <<"unknown-event">>

Step ==
  /\ l <= N
  /\ LET e == Trace[l]
         t == Tags(e)
     IN /\ bad' = bad \o [i \in 1..Len(t) |-> [l |-> l, why |-> t[i]]]
        /\ holder' = IF e.op = "hook" /\ e.ev = "rs.locked" THEN Put(holder, e.enc, Get(holder, e.enc, {}) \cup {e.gid})
                     ELSE IF e.op = "hook" /\ e.ev = "rs.unlock" THEN Put(holder, e.enc, Get(holder, e.enc, {}) \ {e.gid}) ELSE holder
        /\ clen' = IF e.op = "hook" /\ e.ev \in {"rs.locked", "rs.extend", "rs.unlock"} THEN Put(clen, e.enc, e.b) ELSE clen
        /\ atlock' = IF e.op = "hook" /\ e.ev = "rs.locked" THEN Put(atlock, e.gid, e.b) ELSE atlock      \* cache length each goroutine saw when it got in
        /\ livegor' = IF e.op = "hook" /\ e.ev = "go.spawn" THEN livegor + 1 ELSE IF e.op = "hook" /\ e.ev = "go.exit" THEN livegor - 1 ELSE livegor
        /\ memo' = IF e.op \in {"cencode", "ref"} /\ ~\E m \in memo : m.k = e.key THEN memo \cup {[k |-> e.key, v |-> e.digest]} ELSE memo
        /\ acq' = IF e.op = "hook" /\ e.ev = "rs.locked" /\ "client" \in DOMAIN e THEN Append(acq, e.client) ELSE acq
  /\ l' = l + 1

Spec == Init /\ [][Step]_vars
\* RSCache!MutualExclusion / CacheAppendOnly on the observed execution
AppendOnly == [][\A k \in DOMAIN clen : k \in DOMAIN clen' /\ clen'[k] >= clen[k]]_vars
Done == l = N + 1 => JsonSerialize("verdict.json", [n |-> l - 1, bad |-> bad])
=============================================================================
