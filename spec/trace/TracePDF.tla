-------------------------------- MODULE TracePDF --------------------------------
(* Monitor-style trace specification for pdf417.Encode / EncodeWithColor: outcome and two-sided acceptance (C10), structure   *)
(* and round trip through the reference reader of PDF417.tla (C04), security level named by the row indicators and           *)
(* 2^(level+1) valid check words (C12), less than one row of padding and 2..30 rows/columns (C13), rendering contract (C11). *)
EXTENDS SymCommon, Contract, Json, TLC

PDF == INSTANCE PDF417

Trace == ndJsonDeserialize("trace.ndjson")
N == Len(Trace)

VARIABLES l, bad, memo, seen, rdv
vars == <<l, bad, memo, seen, rdv>>
None == [ok |-> FALSE, why |-> "none"]
Init == l = 1 /\ bad = <<>> /\ memo = {} /\ seen = {} /\ rdv = None

P(e, i) == IF i <= Len(e.p) THEN e.p[i] ELSE 0
HasPx(e) == "px" \in DOMAIN e.res
Known(e) == e.op = "encode" /\ e.sym = "pdf"

\* acceptance bounds: byte compaction is always available (6 bytes per 5 codewords + up to 5 single bytes + latch);
\* no compaction beats 2.93 digits / 2 text characters / 1.2 bytes per codeword
ByteCW(nb) == 1 + 5 * (nb \div 6) + (nb % 6)
MustAccept(nb, level) == level <= 8 /\ 1 + ByteCW(nb) + 2 ^ (level + 1) <= 900
MustReject(nb, level) == level > 8 \/ 1 + (nb \div 3) + 2 ^ (level + 1) > 928

EncodeTags(e, rd) ==
  LET r == e.res
      level == P(e, 1)
      nb == Len(e.content)
  IN OutcomeTags(e)
     \o (IF r.kind = "error" /\ MustAccept(nb, level) THEN <<"reject-representable">>
         ELSE IF r.kind = "ok" /\ MustReject(nb, level) THEN <<"accept-unrepresentable">> ELSE <<>>)
     \o (IF r.kind # "ok" THEN <<>>
         ELSE (IF ~HasPx(e) THEN <<>>
               ELSE (IF ~rd.ok THEN <<"structure-" \o rd.why>>
                     ELSE (IF rd.out # e.content THEN <<"decode">> ELSE <<>>)
                          \o (IF rd.level # level THEN <<"level">> ELSE <<>>)
                          \o (IF rd.npad >= rd.cols THEN <<"padding-row">> ELSE <<>>)
                          \o (IF rd.rows \notin 2..30 \/ rd.cols \notin 2..30 THEN <<"dimension-limits">> ELSE <<>>))
                    \o (IF r.content # e.content THEN <<"content">> ELSE <<>>)
                    \o ContractTags(e, r.w, r.hh, "PDF417", 2)
                    \o (IF \E x \in memo : x.k = PatternKey(e) /\ x.v # r.pxdigest THEN <<"pattern-depends-on-scheme-or-history">> ELSE <<>>)))

NeedsRead(e) == Known(e) /\ e.res.kind = "ok" /\ HasPx(e)
ReadStep ==
  /\ l <= N /\ rdv = None /\ NeedsRead(Trace[l])
  /\ rdv' = PDF!Read(Trace[l].res.px)
  /\ UNCHANGED <<l, bad, memo, seen>>
JudgeStep ==
  /\ l <= N /\ (rdv # None \/ ~NeedsRead(Trace[l]))
  /\ rdv' = None
  /\ LET e == Trace[l]
         rd == IF rdv = None THEN [ok |-> FALSE, why |-> "no-pixels"] ELSE rdv
         t == IF Known(e) THEN EncodeTags(e, rd) ELSE <<"unknown-event">>
     IN /\ bad' = bad \o [i \in 1..Len(t) |-> [l |-> l, why |-> t[i]]]
        /\ memo' = IF Known(e) /\ e.res.kind = "ok" /\ HasPx(e) /\ ~\E x \in memo : x.k = PatternKey(e)
                   THEN memo \cup {[k |-> PatternKey(e), v |-> e.res.pxdigest]} ELSE memo
        /\ seen' = IF rd.ok THEN seen \cup {<<rd.rows, rd.cols, rd.level>>} ELSE seen
  /\ l' = l + 1
Step == ReadStep \/ JudgeStep
Spec == Init /\ [][Step]_vars
MemoStable == [][memo \subseteq memo']_vars
Done == l = N + 1 => JsonSerialize("verdict.json", [n |-> l - 1, bad |-> bad, seen |-> SetToSeq(seen)])
=============================================================================
