------------------------------- MODULE TraceGF -------------------------------
(***************************************************************************)
(* Monitor-style trace specification for utils.GaloisField, utils.GFPoly   *)
(* and utils.ReedSolomonEncoder (C17).  Each line of trace.ndjson is one   *)
(* recorded call (or one row of calls) on the real objects.  Results are   *)
(* judged by the relations of GF.tla (IsProduct, IsQuotient, IsInverse,    *)
(* IsDivision, IsRSCheck), never by re-running the library's algorithm.    *)
(* State: per encoder object the sequence of check-symbol counts requested *)
(* so far (the abstract cache of RSCache.tla is polys = Gen(0..max)), and  *)
(* memo, the function learnt so far from (field, data, n) to check symbols *)
(* -- a later call with the same arguments on any encoder, after any       *)
(* history, must return the same symbols.                                  *)
(***************************************************************************)
EXTENDS GF, Json, TLC

Trace == ndJsonDeserialize("trace.ndjson")
N == Len(Trace)

VARIABLES l, bad, reqs, memo
vars == <<l, bad, reqs, memo>>

Init == l = 1 /\ bad = <<>> /\ reqs = <<>> /\ memo = {}

All(n, P(_)) == \A i \in 1..n : P(i)

GFWhy(e) ==
  LET F == FieldOf(e.field)
      r == e.res
  IN IF r.kind # "ok" THEN "result-" \o r.kind
     ELSE CASE e.call = "mulrow" ->
                 IF Len(r.out) # Len(e.b) THEN "shape"
                 ELSE IF \E i \in 1..Len(e.b) : r.out[i] = -1 THEN "panic"
                 ELSE IF All(Len(e.b), LAMBDA i : IsProduct(F, e.a[1], e.b[i], r.out[i])) THEN "" ELSE "wrong-product"
            [] e.call = "divrow" ->
                 IF Len(r.out) # Len(e.b) \/ \E i \in 1..Len(e.b) : e.b[i] = 0 THEN "shape"
                 ELSE IF \E i \in 1..Len(e.b) : r.out[i] = -1 THEN "panic"
                 ELSE IF All(Len(e.b), LAMBDA i : IsQuotient(F, e.a[1], e.b[i], r.out[i])) THEN "" ELSE "wrong-quotient"
            [] e.call = "invrow" ->
                 IF Len(r.out) # Len(e.b) \/ \E i \in 1..Len(e.b) : e.b[i] = 0 THEN "shape"
                 ELSE IF \E i \in 1..Len(e.b) : r.out[i] = -1 THEN "panic"
                 ELSE IF All(Len(e.b), LAMBDA i : IsInverse(F, e.b[i], r.out[i])) THEN "" ELSE "wrong-inverse"
            [] e.call = "addrow" ->
                 IF Len(r.out) = Len(e.b) /\ All(Len(e.b), LAMBDA i : r.out[i] = Add(e.a[1], e.b[i])) THEN "" ELSE "wrong-sum"
            [] e.call = "padd"  -> IF Norm(r.out) = PAdd(e.a, e.b) THEN "" ELSE "wrong-polynomial-sum"
            [] e.call = "pmul"  -> IF Norm(r.out) = PMul(F, e.a, e.b) THEN "" ELSE "wrong-polynomial-product"
            [] e.call = "pmono" -> IF Norm(r.out) = PMono(F, e.a, e.b[1], e.b[2]) THEN "" ELSE "wrong-monomial-product"
            [] e.call = "pdiv"  -> IF IsDivision(F, e.a, e.b, r.out, r.rem) THEN "" ELSE "not-a-division"
            [] OTHER -> "unknown-call"

Key(e) == <<e.field, e.a, e.n>>

RSWhy(e) ==
  LET F == FieldOf(e.field)
  IN IF e.res.kind # "ok" THEN "result-" \o e.res.kind
     ELSE IF ~IsRSCheck(F, e.a, e.n, e.res.out) THEN "roots"
     ELSE IF \E m \in memo : m.k = Key(e) /\ m.v # e.res.out THEN "history-dependent"
     ELSE ""

Step ==
  /\ l <= N
  /\ LET e == Trace[l]
         w == IF e.op = "gf" THEN GFWhy(e) ELSE IF e.op = "rs" THEN RSWhy(e) ELSE "unknown-event"
     IN /\ bad' = IF w = "" THEN bad ELSE Append(bad, [l |-> l, why |-> w])
        /\ IF e.op = "rs" /\ e.res.kind = "ok"
           THEN /\ memo' = IF \E m \in memo : m.k = Key(e) THEN memo ELSE memo \cup {[k |-> Key(e), v |-> e.res.out]}
                /\ reqs' = [o \in (DOMAIN reqs) \cup {e.obj} |->
                              IF o = e.obj THEN (IF o \in DOMAIN reqs THEN Append(reqs[o], e.n) ELSE <<e.n>>) ELSE reqs[o]]
           ELSE UNCHANGED <<memo, reqs>>
  /\ l' = l + 1

Spec == Init /\ [][Step]_vars
Done == l = N + 1 => JsonSerialize("verdict.json", [n |-> l - 1, bad |-> bad])
=============================================================================
