SPECIFICATION Spec
INVARIANT Done
PROPERTY Immutable
CHECK_DEADLOCK FALSE
