-------------------------------- MODULE TraceQR --------------------------------
(***************************************************************************)
(* Monitor-style trace specification for qr.Encode / qr.EncodeWithColor.   *)
(* Conjuncts (tags): outcome / acceptance (C10), structure and round trip  *)
(* through the reference reader of QR.tla (C01), declared level and block  *)
(* structure (C12), minimal version (C13), rendering contract (C11).       *)
(* Events with proj = "outcome" carry no pixels: only outcome, acceptance  *)
(* and size conjuncts apply to them.                                       *)
(***************************************************************************)
EXTENDS SymCommon, Contract, Json, TLC

QR == INSTANCE QR

Trace == ndJsonDeserialize("trace.ndjson")
N == Len(Trace)

VARIABLES l, bad, memo, seen, rdv
vars == <<l, bad, memo, seen, rdv>>
None == [ok |-> FALSE, why |-> "none"]
Init == l = 1 /\ bad = <<>> /\ memo = {} /\ seen = {} /\ rdv = None

P(e, i) == IF i <= Len(e.p) THEN e.p[i] ELSE 0
HasPx(e) == "px" \in DOMAIN e.res

EncodeTags(e, rd) ==
  LET r == e.res
      level == P(e, 1)
      apimode == P(e, 2)
      indomain == level \in 0..3 /\ apimode \in 0..3
      rep == QR!Representable(e.content, level, apimode)
      md == QR!ModeFor(apimode, e.content)
      minv == QR!MinVersion(level, md, Len(e.content))
  IN IF ~indomain THEN <<>>                     \* undefined level / mode constants are outside every property's domain
     ELSE OutcomeTags(e) \o AcceptTags(e, rep, FALSE)
     \o (IF r.kind # "ok" THEN <<>>
         ELSE (IF r.w # r.hh \/ r.w < 21 \/ (r.w - 17) % 4 # 0 THEN <<"structure-size">>
               ELSE IF rep /\ (r.w - 17) \div 4 > minv THEN <<"version-not-minimal">> ELSE <<>>)
              \o (IF ~HasPx(e) THEN <<>>
                  ELSE    (IF ~rd.ok THEN <<"structure-" \o rd.why>>
                           ELSE (IF rd.out # e.content THEN <<"decode">> ELSE <<>>)
                                \o (IF rd.level # level THEN <<"level">> ELSE <<>>))
                          \o (IF r.content # e.content THEN <<"content">> ELSE <<>>)
                          \o ContractTags(e, r.w, r.w, "QR Code", 2)
                          \o (IF \E x \in memo : x.k = PatternKey(e) /\ x.v # r.pxdigest THEN <<"pattern-depends-on-scheme-or-history">> ELSE <<>>)))

Known(e) == e.op = "encode" /\ e.sym = "qr"
Tags(e, rd) == IF Known(e) THEN EncodeTags(e, rd) ELSE <<"unknown-event">>

Cover(e, rd) == IF Known(e) /\ e.res.kind = "ok" /\ HasPx(e) /\ rd.ok THEN {<<rd.version, rd.level, rd.mask, rd.modes>>} ELSE {}

\* Two steps per event: first the image is read (once; the reader's result becomes part of the state), then it is judged.
NeedsRead(e) == Known(e) /\ e.res.kind = "ok" /\ HasPx(e)
ReadStep ==
  /\ l <= N /\ rdv = None /\ NeedsRead(Trace[l])
  /\ rdv' = QR!Read(Trace[l].res.px)
  /\ UNCHANGED <<l, bad, memo, seen>>
JudgeStep ==
  /\ l <= N /\ (rdv # None \/ ~NeedsRead(Trace[l]))
  /\ rdv' = None
  /\ LET e == Trace[l]
         rd == IF rdv = None THEN [ok |-> FALSE, why |-> "no-pixels"] ELSE rdv
         t == Tags(e, rd)
     IN /\ bad' = bad \o [i \in 1..Len(t) |-> [l |-> l, why |-> t[i]]]
        /\ memo' = IF Known(e) /\ e.res.kind = "ok" /\ HasPx(e) /\ ~\E x \in memo : x.k = PatternKey(e)
                   THEN memo \cup {[k |-> PatternKey(e), v |-> e.res.pxdigest]} ELSE memo
        /\ seen' = seen \cup Cover(e, rd)
  /\ l' = l + 1

Step == ReadStep \/ JudgeStep
Spec == Init /\ [][Step]_vars
MemoStable == [][memo \subseteq memo']_vars
Done == l = N + 1 => JsonSerialize("verdict.json", [n |-> l - 1, bad |-> bad, seen |-> SetToSeq(seen)])
=============================================================================
