-------------------------------- MODULE TraceDM --------------------------------
(* Monitor-style trace specification for datamatrix.Encode / EncodeWithColor: outcome and acceptance (C10), structure   *)
(* and round trip through the reference reader of DM.tla (C02), ECC 200 check-word count (C12, part of the reader),     *)
(* smallest size (C13), rendering contract (C11).                                                                        *)
EXTENDS SymCommon, Contract, Json, TLC

DM == INSTANCE DM

Trace == ndJsonDeserialize("trace.ndjson")
N == Len(Trace)

VARIABLES l, bad, memo, seen, rdv
vars == <<l, bad, memo, seen, rdv>>
None == [ok |-> FALSE, why |-> "none"]
Init == l = 1 /\ bad = <<>> /\ memo = {} /\ seen = {} /\ rdv = None

HasPx(e) == "px" \in DOMAIN e.res
Known(e) == e.op = "encode" /\ e.sym = "dm"

EncodeTags(e, rd) ==
  LET r == e.res
      rep == DM!Representable(e.content)
      msi == DM!MinSizeIdx(e.content)
  IN OutcomeTags(e) \o AcceptTags(e, rep, FALSE)
     \o (IF r.kind # "ok" THEN <<>>
         ELSE (IF r.w # r.hh \/ DM!SizeIdx(r.w) = 0 THEN <<"structure-size">>
               ELSE IF rep /\ DM!SizeIdx(r.w) > msi THEN <<"size-not-minimal">> ELSE <<>>)
              \o (IF ~HasPx(e) THEN <<>>
                  ELSE (IF ~rd.ok THEN <<"structure-" \o rd.why>>
                        ELSE IF rd.out # e.content THEN <<"decode">> ELSE <<>>)
                       \o (IF r.content # e.content THEN <<"content">> ELSE <<>>)
                       \o ContractTags(e, r.w, r.w, "DataMatrix", 2)
                       \o (IF \E x \in memo : x.k = PatternKey(e) /\ x.v # r.pxdigest THEN <<"pattern-depends-on-scheme-or-history">> ELSE <<>>)))

\* Two steps per event: first the image is read (once; the reader's result becomes part of the state), then it is judged.
NeedsRead(e) == Known(e) /\ e.res.kind = "ok" /\ HasPx(e)
ReadStep ==
  /\ l <= N /\ rdv = None /\ NeedsRead(Trace[l])
  /\ rdv' = DM!Read(Trace[l].res.px)
  /\ UNCHANGED <<l, bad, memo, seen>>
JudgeStep ==
  /\ l <= N /\ (rdv # None \/ ~NeedsRead(Trace[l]))
  /\ rdv' = None
  /\ LET e == Trace[l]
         rd == IF rdv = None THEN [ok |-> FALSE, why |-> "no-pixels"] ELSE rdv
         t == IF Known(e) THEN EncodeTags(e, rd) ELSE <<"unknown-event">>
     IN /\ bad' = bad \o [i \in 1..Len(t) |-> [l |-> l, why |-> t[i]]]
        /\ memo' = IF Known(e) /\ e.res.kind = "ok" /\ HasPx(e) /\ ~\E x \in memo : x.k = PatternKey(e)
                   THEN memo \cup {[k |-> PatternKey(e), v |-> e.res.pxdigest]} ELSE memo
        /\ seen' = IF rd.ok THEN seen \cup {<<rd.sizeidx, rd.corners, rd.fixed, rd.padded>>} ELSE seen
  /\ l' = l + 1

Step == ReadStep \/ JudgeStep
Spec == Init /\ [][Step]_vars
MemoStable == [][memo \subseteq memo']_vars
Done == l = N + 1 => JsonSerialize("verdict.json", [n |-> l - 1, bad |-> bad, seen |-> SetToSeq(seen)])
=============================================================================
