------------------------------- MODULE Pipelines -------------------------------
(***************************************************************************)
(* The goroutine / channel pipelines hidden inside the QR encoder (C16),   *)
(* one action per channel operation (unbuffered channels: a send and the   *)
(* matching receive are one rendezvous step; a receive on a closed channel *)
(* returns the zero value at once).                                        *)
(*  "bytes"  BitList.IterateBytes producer (Produced sends, close, exit)   *)
(*           against splitToBlocks, which performs exactly Consumed        *)
(*           receives.  Terminates without leak or zero-fill only when     *)
(*           Produced = Consumed: the binding establishes that equality on *)
(*           the real code (hook event qr.split).                          *)
(*  "modules" iterateModules: generator -> allPoints -> filter -> result   *)
(*           against a consumer that ranges until close.                   *)
(*  "alpha"  stringToAlphaIdx (one index per rune, stops after the first   *)
(*           negative one, closes) against encodeAlphaNumeric, which       *)
(*           returns early on a negative index.                            *)
(* gor = set of live library goroutines.  NoLeak: once the caller has      *)
(* returned, eventually no library goroutine is alive.                     *)
(***************************************************************************)
EXTENDS Integers, Sequences, FiniteSets, TLC

CONSTANTS Kind, Produced, Consumed,   \* "bytes"
          Points,                     \* "modules": sequence of 0/1 (1 = occupied, filtered out)
          Content                     \* "alpha": sequence of indices (negative = not in the character set)

VARIABLES gor,      \* live library goroutines
          pc,       \* pc[g] for g in {"caller", "prod", "filt"}
          i, j,     \* producer / filter position
          closed,   \* set of closed channels
          got,      \* what the caller received
          need,     \* receives the caller still wants to perform
          hold      \* value the filter holds between its receive and its send
vars == <<gor, pc, i, j, closed, got, need, hold>>

Items == IF Kind = "bytes" THEN [k \in 1..Produced |-> k] ELSE IF Kind = "modules" THEN Points ELSE Content
N == Len(Items)

Init == /\ gor = (IF Kind = "modules" THEN {"prod", "filt"} ELSE {"prod"})
        /\ pc = [g \in {"caller", "prod", "filt"} |-> IF g = "caller" THEN "recv" ELSE "run"]
        /\ i = 1 /\ j = 0 /\ closed = {} /\ got = <<>> /\ hold = 0
        /\ need = (IF Kind = "bytes" THEN Consumed ELSE IF Kind = "alpha" THEN Len(Content) ELSE -1)

CallerWants == pc["caller"] = "recv" /\ (need > 0 \/ need = -1)

\* ---- producer: bytes / alpha send to the caller's channel "out"; modules send to "all"
ProdSendToCaller ==
  /\ Kind \in {"bytes", "alpha"} /\ pc["prod"] = "run" /\ i <= N /\ CallerWants
  /\ got' = Append(got, Items[i])
  /\ need' = IF need > 0 THEN need - 1 ELSE need
  /\ i' = i + 1
  /\ pc' = IF Kind = "alpha" /\ Items[i] < 0 THEN [pc EXCEPT !["prod"] = "close", !["caller"] = "return"]     \* both sides stop after a negative index
           ELSE pc
  /\ UNCHANGED <<gor, j, closed, hold>>
ProdSendToFilter ==
  /\ Kind = "modules" /\ pc["prod"] = "run" /\ i <= N /\ pc["filt"] = "run" /\ j = 0
  /\ hold' = i /\ j' = 1 /\ i' = i + 1
  /\ UNCHANGED <<gor, pc, closed, got, need>>
ProdClose ==
  /\ ((pc["prod"] = "run" /\ i > N) \/ pc["prod"] = "close")
  /\ closed' = closed \cup {IF Kind = "modules" THEN "all" ELSE "out"}
  /\ pc' = [pc EXCEPT !["prod"] = "done"] /\ gor' = gor \ {"prod"}
  /\ UNCHANGED <<i, j, got, need, hold>>
\* ---- filter (modules only)
FiltDrop == /\ Kind = "modules" /\ pc["filt"] = "run" /\ j = 1 /\ Points[hold] = 1 /\ j' = 0 /\ UNCHANGED <<gor, pc, i, closed, got, need, hold>>
FiltSend == /\ Kind = "modules" /\ pc["filt"] = "run" /\ j = 1 /\ Points[hold] = 0 /\ CallerWants
            /\ got' = Append(got, hold) /\ j' = 0 /\ UNCHANGED <<gor, pc, i, closed, need, hold>>
FiltClose == /\ Kind = "modules" /\ pc["filt"] = "run" /\ j = 0 /\ "all" \in closed
             /\ closed' = closed \cup {"out"} /\ pc' = [pc EXCEPT !["filt"] = "done"] /\ gor' = gor \ {"filt"}
             /\ UNCHANGED <<i, j, got, need, hold>>
\* ---- caller
CallerRecvClosed ==      \* a receive on a closed channel yields the zero value (range loops end instead)
  /\ pc["caller"] = "recv" /\ "out" \in closed
  /\ IF need = -1 THEN pc' = [pc EXCEPT !["caller"] = "return"] /\ UNCHANGED <<got, need>>
     ELSE need > 0 /\ got' = Append(got, 0) /\ need' = need - 1 /\ UNCHANGED pc
  /\ UNCHANGED <<gor, i, j, closed, hold>>
CallerDone == /\ pc["caller"] = "recv" /\ need = 0 /\ pc' = [pc EXCEPT !["caller"] = "return"] /\ UNCHANGED <<gor, i, j, closed, got, need, hold>>

Next == ProdSendToCaller \/ ProdSendToFilter \/ ProdClose \/ FiltDrop \/ FiltSend \/ FiltClose \/ CallerRecvClosed \/ CallerDone
Spec == Init /\ [][Next]_vars /\ WF_vars(Next)

-----------------------------------------------------------------------------
Returned == pc["caller"] = "return"
\* liveness: the call returns, and afterwards no library goroutine stays alive
CallReturns == <>Returned
NoLeak == <>[](gor = {})
\* safety: the caller never reads a zero produced by a closed channel as if it were data
NoZeroFill == Kind = "bytes" => \A k \in 1..Len(got) : got[k] # 0
InOrder == Kind = "bytes" => \A k \in 1..Len(got) : got[k] = 0 \/ got[k] = k
FilteredInOrder == (Kind = "modules" /\ Returned) => got = SelectSeq([k \in 1..N |-> k], LAMBDA k : Points[k] = 0)
AlphaPrefix == (Kind = "alpha" /\ Returned) =>
                 got = SubSeq(Content, 1, IF \E k \in 1..N : Content[k] < 0 THEN (CHOOSE k \in 1..N : Content[k] < 0 /\ \A m \in 1..(k - 1) : Content[m] >= 0) ELSE N)
=============================================================================
