-------------------------------- MODULE Barcode --------------------------------
(***************************************************************************)
(* Umbrella specification of the library as a system: clients call         *)
(* encoders (pure functions of their arguments), receive barcodes (values  *)
(* in a handle table), may mutate the byte buffers they passed in, may     *)
(* re-read any barcode at any time, and fresh processes may perform the    *)
(* same encode ("one-shot").  Encoders are abstract here: F is an          *)
(* uninterpreted deterministic function of the arguments, and the shared   *)
(* generator-polynomial cache of RSCache.tla is abstracted to the set of   *)
(* degrees requested so far.  Properties C15: Deterministic, HistoryFree,  *)
(* FreshProcessAgrees, Immutable, InputUntouched.                          *)
(* Aliasing = TRUE gives the deliberately wrong variant in which a barcode *)
(* keeps a reference to the caller's buffer (what aztec did): it must      *)
(* violate Immutable.  Stateful = TRUE gives a variant whose output        *)
(* depends on the cache contents: it must violate Deterministic.           *)
(***************************************************************************)
EXTENDS Integers, Sequences, FiniteSets, TLC

CONSTANTS Args,        \* abstract argument tuples; an argument is <<encoder, buffer id>>
          Bufs,        \* buffer ids
          Vals,        \* byte values
          MaxHandles, Aliasing, Stateful

VARIABLES bc,      \* handle -> [arg, content (value or reference), out]
          buf,     \* buffer id -> sequence of bytes
          memo,    \* function learnt so far: [<<encoder, buffer contents>> -> observed result]
          cache,   \* degrees requested so far (stands for the lazily grown RS cache)
          last     \* last observation [kind, h, obs]
vars == <<bc, buf, memo, cache, last>>

\* the abstract encoder: output is a function of the encoder name and the buffer CONTENTS at call time
F(enc, data) == <<enc, data>>
Degree(enc, data) == Len(data) + (IF enc = "e2" THEN 1 ELSE 0)

\* what a client observes when it reads barcode h now
Obs(h) == [out |-> bc[h].out, content |-> IF Aliasing THEN buf[bc[h].ref] ELSE bc[h].content]

Init == /\ bc = <<>> /\ buf \in [Bufs -> {<<v>> : v \in Vals}] /\ memo = <<>> /\ cache = {} /\ last = [kind |-> "init"]

Key(a) == <<a[1], buf[a[2]]>>

Encode(a) ==
  /\ Len(bc) < MaxHandles
  /\ LET data == buf[a[2]]
         out == IF Stateful THEN <<F(a[1], data), cache>> ELSE F(a[1], data)
         rec == [arg |-> a, ref |-> a[2], content |-> data, out |-> out]
     IN /\ bc' = Append(bc, rec)
        /\ cache' = cache \cup {Degree(a[1], data)}
        /\ last' = [kind |-> "encode", h |-> Len(bc) + 1, key |-> Key(a), obs |-> [out |-> out, content |-> data]]
        /\ memo' = IF Key(a) \in DOMAIN memo THEN memo ELSE [k \in (DOMAIN memo) \cup {Key(a)} |-> IF k = Key(a) THEN [out |-> out, content |-> data] ELSE memo[k]]
  /\ UNCHANGED buf

\* an encode of the same arguments performed by a freshly started process (empty cache)
OneShot(a) ==
  /\ LET data == buf[a[2]]
         out == IF Stateful THEN <<F(a[1], data), {}>> ELSE F(a[1], data)
     IN last' = [kind |-> "oneshot", h |-> 0, key |-> Key(a), obs |-> [out |-> out, content |-> data]]
  /\ UNCHANGED <<bc, buf, memo, cache>>

Mutate(b, v) == /\ buf' = [buf EXCEPT ![b] = <<v>>] /\ last' = [kind |-> "mutate"] /\ UNCHANGED <<bc, memo, cache>>

Reread(h) == /\ h \in 1..Len(bc) /\ last' = [kind |-> "reread", h |-> h, obs |-> Obs(h)] /\ UNCHANGED <<bc, buf, memo, cache>>

Next == \/ \E a \in Args : Encode(a) \/ OneShot(a)
        \/ \E b \in Bufs, v \in Vals : Mutate(b, v)
        \/ \E h \in 1..MaxHandles : Reread(h)
Spec == Init /\ [][Next]_vars

-----------------------------------------------------------------------------
\* every observation of the same arguments (same process, later, after any history, or from a fresh process) is the same
Deterministic == last.kind \in {"encode", "oneshot"} /\ last.key \in DOMAIN memo => last.obs = memo[last.key]
\* barcodes are values: what a handle shows never changes, whatever happens to the buffers
Immutable == [][\A h \in 1..Len(bc) : Obs(h)' = Obs(h)]_vars
\* an encoder does not write to its input
InputUntouched == [][last'.kind \in {"encode", "oneshot"} => buf' = buf]_vars
=============================================================================
